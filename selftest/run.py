#!/venv/bin/python
"""Mutation self-test of the monitors (DESIGN.md section 6).

Each mutant is a textual edit of one file of the repository.  The driver copies
/repo/unit_scaling to a scratch directory OUTSIDE /repo and /verif, applies the edit, runs the
owning check(s) against the copy (`./check Cxx --repo <copy> --no-evidence`) and demands a
VIOLATION whose key is not a known finding; negative controls (`silent`) must stay quiet.
The scratch copy is removed as soon as the mutant has been judged.

usage: selftest/run.py [--only ID-substring] [--tier quick] [--par 4] [--jobs 6]
"""

from __future__ import annotations

import argparse
import concurrent.futures as cf
import json
import os
import shutil
import subprocess
import sys
import tempfile
import time

HERE = os.path.dirname(os.path.abspath(__file__))
VERIF = os.path.dirname(HERE)
REPO = os.environ.get("VMON_REPO", "/repo")
SCRATCH_ROOT = os.environ.get("VERIF_SCRATCH", "/var/tmp")


def load():
    out = []
    for fn in sorted(os.listdir(os.path.join(HERE, "mutants"))):
        if fn.endswith(".json"):
            with open(os.path.join(HERE, "mutants", fn)) as f:
                out.extend(json.load(f))
    return out


_BASE = {}
_BASE_LOCK = __import__("threading").Lock()


def _keys(stdout):
    out = set()
    for ln in stdout.splitlines():
        ln = ln.strip()
        if ln.startswith("key="):
            out.add(ln.split(" witnesses=")[0][4:])
    return out


def baseline(prop, tier, jobs):
    """Violation keys the check reports on the UNMUTATED tree (ideally none): never credited to a mutant."""
    with _BASE_LOCK:
        if prop not in _BASE:
            r = subprocess.run([os.path.join(VERIF, "check"), prop, "--tier", tier, "--repo", REPO, "--no-evidence", "--jobs", str(jobs)],
                               capture_output=True, text=True, cwd=VERIF, timeout=3600)
            _BASE[prop] = _keys(r.stdout)
        return _BASE[prop]


def run_one(m, tier, jobs):
    t0 = time.time()
    d = tempfile.mkdtemp(prefix="vmon-mut-", dir=SCRATCH_ROOT)
    res = {"id": m["id"], "results": {}, "ok": True}
    try:
        shutil.copytree(os.path.join(REPO, "unit_scaling"), os.path.join(d, "unit_scaling"),
                        ignore=shutil.ignore_patterns("__pycache__", "tests"))
        for ed in m["edits"]:
            p = os.path.join(d, ed["file"])
            s = open(p).read()
            if s.count(ed["old"]) != 1:
                res["ok"] = False
                res["error"] = f"edit anchor found {s.count(ed['old'])} times in {ed['file']}"
                return res
            open(p, "w").write(s.replace(ed["old"], ed["new"]))
        for prop in m.get("expect", []) + m.get("silent", []):
            r = subprocess.run([os.path.join(VERIF, "check"), prop, "--tier", tier, "--repo", d, "--no-evidence", "--jobs", str(jobs)],
                               capture_output=True, text=True, cwd=VERIF, timeout=3600)
            viol = [ln for ln in r.stdout.splitlines() if ln.startswith("VIOLATION")]
            keys = [ln.strip() for ln in r.stdout.splitlines() if ln.strip().startswith("key=")]
            new_keys = _keys(r.stdout) - baseline(prop, tier, jobs)
            fired = r.returncode == 1 and bool(viol) and bool(new_keys)
            keys = sorted(new_keys)
            want = prop in m.get("expect", [])
            good = fired == want and r.returncode in (0, 1)
            res["results"][prop] = {"rc": r.returncode, "fired": fired, "wanted": want, "new_keys": [k[:160] for k in keys[:4]]}
            if r.returncode == 2:
                res["results"][prop]["inconclusive"] = [ln for ln in r.stdout.splitlines() if "INCONCLUSIVE" in ln or "WORKER PROBLEM" in ln][:3]
            if not good:
                res["ok"] = False
    finally:
        shutil.rmtree(d, ignore_errors=True)
    res["wall_s"] = round(time.time() - t0, 1)
    return res


def main():
    ap = argparse.ArgumentParser()
    ap.add_argument("--only", default="")
    ap.add_argument("--tier", default="quick")
    ap.add_argument("--par", type=int, default=4)
    ap.add_argument("--jobs", type=int, default=6)
    ap.add_argument("--out", default=os.path.join(HERE, "last_results.json"))
    a = ap.parse_args()
    muts = [m for m in load() if any(o in m["id"] for o in a.only.split(","))] if a.only else load()
    results = []
    with cf.ThreadPoolExecutor(a.par) as ex:
        for r in ex.map(lambda m: run_one(m, a.tier, a.jobs), muts):
            flag = "ok  " if r["ok"] else "MISS"
            print(flag, r["id"], json.dumps(r.get("results", {}))[:400], r.get("error", ""), flush=True)
            results.append(r)
    with open(a.out, "w") as f:
        json.dump(results, f, indent=1)
    bad = [r["id"] for r in results if not r["ok"]]
    print(f"{len(results) - len(bad)}/{len(results)} mutants judged as expected; misses: {bad}")
    return 1 if bad else 0


if __name__ == "__main__":
    sys.exit(main())
