"""Known-findings file (read-only at run time) and violation grouping."""

from __future__ import annotations

import json
import os
from typing import Any, Dict, List

from .common import VERIF_HOME

PATH = os.path.join(VERIF_HOME, "known_findings.json")


def load() -> List[Dict[str, Any]]:
    if not os.path.exists(PATH):
        return []
    with open(PATH) as f:
        return json.load(f).get("findings", [])


def open_keys(prop: str) -> Dict[str, Dict[str, Any]]:
    """mechanism key -> entry, for findings that are still open for this property.
    Entries with status 'fixed' suppress nothing."""
    out = {}
    for e in load():
        if e.get("property") == prop and e.get("status") == "open":
            out[e["key"]] = e
    return out
