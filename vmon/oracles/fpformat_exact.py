"""I8 - exact floating-point-format oracle, independent of unit_scaling.formats.

Value set of format (E, M), from the definition only:
    {0} u { m * 2^(emin-M), 1 <= m < 2^M } u { (1 + m/2^M) * 2^e, emin <= e <= emax, 0 <= m < 2^M }
    emax = 2^(E-1) - 1,  emin = 1 - 2^(E-1)
Two implementations that check each other at start-up:
  * table(E, M): the set built with fractions.Fraction (small formats);
  * neighbours(x, E, M): arithmetic lower/upper neighbours in float64 (exact: every quantity has <= 24 significant
    bits and an exponent inside the double range), usable for every format.
The E2M1 / E3M0 literals asserted by the repository's own test_formats.py are checked too.
"""

from __future__ import annotations

from fractions import Fraction
from typing import List, Tuple

import torch


def emax(E: int) -> int:
    return 2 ** (E - 1) - 1


def emin(E: int) -> int:
    return 1 - 2 ** (E - 1)


def table(E: int, M: int) -> List[Fraction]:
    vals = {Fraction(0)}
    for m in range(1, 2**M):
        vals.add(Fraction(m) * Fraction(2) ** (emin(E) - M))
    for e in range(emin(E), emax(E) + 1):
        for m in range(2**M):
            vals.add((1 + Fraction(m, 2**M)) * Fraction(2) ** e)
    return sorted(vals)


def max_value(E: int, M: int) -> float:
    return float((2 - Fraction(1, 2**M)) * Fraction(2) ** emax(E))


def min_normal(E: int) -> float:
    return float(Fraction(2) ** emin(E))


def min_subnormal(E: int, M: int) -> float:
    return float(Fraction(2) ** (emin(E) - M))


def neighbours(ax: torch.Tensor, E: int, M: int) -> Tuple[torch.Tensor, torch.Tensor, torch.Tensor]:
    """ax: float64 tensor of non-negative finite magnitudes already clamped to max_value.
    Returns (lower, upper, spacing) with lower <= ax <= upper, both representable, upper-lower in {0, spacing}."""
    mant, exp = torch.frexp(ax)  # ax = mant * 2^exp, mant in [0.5, 1)
    e = exp - 1  # floor(log2 ax) for ax > 0
    e_eff = torch.clamp(e, min=emin(E))
    e_eff = torch.where(ax == 0, torch.full_like(e_eff, emin(E)), e_eff)
    spacing = torch.ldexp(torch.ones_like(ax), e_eff - M)
    k = torch.floor(ax / spacing)
    lower = k * spacing
    upper = torch.where(lower == ax, lower, lower + spacing)
    mx = max_value(E, M)
    upper = torch.clamp(upper, max=mx)
    return lower, upper, spacing


def is_member(aq: torch.Tensor, E: int, M: int) -> torch.Tensor:
    lo, up, _ = neighbours(torch.clamp(aq, max=max_value(E, M)), E, M)
    return (lo == aq) & (aq <= max_value(E, M))


def self_check() -> None:
    # literals asserted by the repository's own tests
    assert [float(v) for v in table(2, 1)] == [0, 0.25, 0.5, 0.75, 1, 1.5, 2, 3]
    assert [float(v) for v in table(3, 0)] == [0, 0.125, 0.25, 0.5, 1, 2, 4, 8]
    assert (max_value(2, 1), min_normal(2), min_subnormal(2, 1)) == (3.0, 0.5, 0.25)
    g = torch.Generator().manual_seed(0)
    for (E, M) in [(2, 1), (3, 0), (4, 3), (5, 2), (2, 3), (6, 1)]:
        tab = torch.tensor([float(v) for v in table(E, M)], dtype=torch.float64)
        assert float(tab[-1]) == max_value(E, M) and float(tab[1]) == min_subnormal(E, M)
        assert bool(is_member(tab, E, M).all())
        x = torch.rand(20000, generator=g, dtype=torch.float64) * float(tab[-1])
        x = torch.cat([x, tab, (tab[1:] + tab[:-1]) / 2, torch.rand(2000, generator=g, dtype=torch.float64) * float(tab[2])])
        lo, up, sp = neighbours(x, E, M)
        idx = torch.searchsorted(tab, x, right=True) - 1
        lo_t = tab[idx]
        up_t = torch.where(lo_t == x, lo_t, tab[torch.clamp(idx + 1, max=len(tab) - 1)])
        assert torch.equal(lo, lo_t) and torch.equal(up, up_t), (E, M)
