"""Documented positional parameter order of the public functions and module constructors (API reference of the pinned commit).
Frozen here on purpose: the positional spelling of a call must follow the DOCUMENTED order, not whatever the function under test
currently declares (a reordered signature would otherwise be invisible)."""

FUNCTIONS = {
    "gelu": ["input", "mult", "constraint", "approximate"],
    "silu": ["input", "mult", "constraint", "inplace"],
    "silu_glu": ["input", "gate", "mult"],
    "softmax": ["input", "dim", "dtype", "constraint", "mult", "_stacklevel"],
    "dropout": ["input", "p", "training", "inplace"],
    "matmul": ["left", "right", "constraint"],
    "linear": ["input", "weight", "bias", "constraint", "scale_power"],
    "linear_readout": ["input", "weight", "bias", "constraint"],
    "conv1d": ["input", "weight", "bias", "stride", "padding", "dilation", "groups", "constraint", "scale_power"],
    "layer_norm": ["input", "normalized_shape", "weight", "bias", "eps"],
    "rms_norm": ["input", "normalized_shape", "weight", "eps"],
    "add": ["input", "other", "constraint", "alpha", "out"],
    "embedding": ["input", "weight", "padding_idx", "max_norm", "norm_type", "scale_grad_by_freq", "sparse"],
    "scaled_dot_product_attention": ["query", "key", "value", "attn_mask", "dropout_p", "is_causal", "mult"],
    "cross_entropy": ["input", "target", "weight", "size_average", "ignore_index", "reduce", "reduction", "label_smoothing", "mult"],
    "mse_loss": ["input", "target", "size_average", "reduce", "reduction"],
    "residual_split": ["input", "tau"],
    "residual_add": ["residual", "skip", "tau"],
    "residual_apply": ["fn", "input", "tau"],
}

MODULES = {
    "GELU": ["mult", "constraint", "approximate"],
    "SiLU": ["mult", "constraint", "inplace"],
    "Softmax": ["dim", "mult", "constraint"],
    "Dropout": ["p", "inplace"],
    "Linear": ["in_features", "out_features", "bias", "device", "dtype", "constraint", "weight_mup_type"],
    "LinearReadout": ["in_features", "out_features", "bias", "device", "dtype", "constraint", "weight_mup_type"],
    "Conv1d": ["in_channels", "out_channels", "kernel_size", "stride", "padding", "dilation", "groups", "bias", "padding_mode", "device", "dtype",
               "constraint", "weight_mup_type"],
    "LayerNorm": ["normalized_shape", "eps", "elementwise_affine", "bias", "device", "dtype"],
    "RMSNorm": ["normalized_shape", "eps", "elementwise_affine"],
    "Embedding": ["num_embeddings", "embedding_dim", "padding_idx", "max_norm", "norm_type", "scale_grad_by_freq", "sparse", "_weight", "_freeze",
                  "device", "dtype"],
    "CrossEntropyLoss": ["mult", "weight", "size_average", "ignore_index", "reduce", "reduction", "label_smoothing"],
    "MLP": ["hidden_size", "expansion_factor"],
    "MHSA": ["hidden_size", "heads", "is_causal", "dropout_p", "mult"],
    "TransformerLayer": ["hidden_size", "heads", "mhsa_tau", "mlp_tau", "is_causal", "dropout_p"],
    "TransformerDecoder": ["hidden_size", "vocab_size", "layers", "heads", "dropout_p", "residual_scaling"],
}
