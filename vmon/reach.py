"""I4 - line-reach probe built on sys.monitoring (PEP 669).

LINE events are enabled *locally* on the code objects of the repository's own
(non-test) modules only, and each location disables itself after its first hit, so the
probe costs nothing in steady state.  The result is evidence of which lines of the
anchored mechanism the workload really executed; a required function with zero lines hit
makes the run inconclusive.
"""

from __future__ import annotations

import os
import sys
import types
from typing import Dict, List, Set, Tuple

_TOOL = None
_HITS: Dict[Tuple[str, str], Set[int]] = {}
_TOTAL: Dict[Tuple[str, str], Set[int]] = {}
_PREFIX = ""


def _walk_code(code: types.CodeType):
    yield code
    for c in code.co_consts:
        if isinstance(c, types.CodeType):
            yield from _walk_code(c)


def _on_line(code: types.CodeType, line: int):
    key = (code.co_filename, code.co_qualname)
    s = _HITS.get(key)
    if s is None:
        s = _HITS[key] = set()
    s.add(line)
    return sys.monitoring.DISABLE


def start(pkg_dir: str) -> bool:
    """Enable the probe on every code object compiled from pkg_dir (tests excluded)."""
    global _TOOL, _PREFIX
    if not hasattr(sys, "monitoring"):
        return False
    _PREFIX = os.path.realpath(pkg_dir) + os.sep
    mon = sys.monitoring
    for tool in (3, 4, mon.COVERAGE_ID):
        try:
            mon.use_tool_id(tool, "vmon-reach")
            _TOOL = tool
            break
        except ValueError:
            continue
    if _TOOL is None:
        return False
    mon.register_callback(_TOOL, mon.events.LINE, _on_line)
    seen: Set[int] = set()
    for name, mod in list(sys.modules.items()):
        f = getattr(mod, "__file__", None)
        if not f or not name.startswith("unit_scaling") or ".tests" in name:
            continue
        if not os.path.realpath(f).startswith(_PREFIX):
            continue
        for obj in list(vars(mod).values()):
            _instrument(obj, seen, depth=0)
    return True


def _instrument(obj, seen: Set[int], depth: int) -> None:
    mon = sys.monitoring
    if id(obj) in seen or depth > 3:
        return
    seen.add(id(obj))
    code = None
    if isinstance(obj, types.FunctionType):
        code = obj.__code__
        w = getattr(obj, "__wrapped__", None)
        if w is not None:
            _instrument(w, seen, depth)
    elif isinstance(obj, (staticmethod, classmethod)):
        _instrument(obj.__func__, seen, depth)
    elif isinstance(obj, property):
        for f in (obj.fget, obj.fset):
            if f is not None:
                _instrument(f, seen, depth)
    elif isinstance(obj, type):
        if getattr(obj, "__module__", "").startswith("unit_scaling"):
            for v in list(vars(obj).values()):
                _instrument(v, seen, depth + 1)
    if code is None:
        return
    if not os.path.realpath(code.co_filename).startswith(_PREFIX):
        return
    if os.sep + "tests" + os.sep in code.co_filename:
        return
    for c in _walk_code(code):
        key = (c.co_filename, c.co_qualname)
        lines = {ln for (_, _, ln) in c.co_lines() if ln is not None and ln != c.co_firstlineno}
        _TOTAL.setdefault(key, set()).update(lines)
        try:
            mon.set_local_events(_TOOL, c, mon.events.LINE)
        except Exception:
            pass


def snapshot() -> Dict[str, Dict[str, List[List[int]]]]:
    """{relative file: {qualname: [hit lines, all lines]}}"""
    out: Dict[str, Dict[str, List[List[int]]]] = {}
    for key, total in _TOTAL.items():
        fn, qn = key
        rel = os.path.realpath(fn)[len(_PREFIX):]
        hit = sorted(_HITS.get(key, set()) & total) if total else sorted(_HITS.get(key, set()))
        out.setdefault(rel, {})[qn] = [hit, sorted(total)]
    return out
