"""Case generation and judging shared by C01 (forward) and C02 (gradients)."""

from __future__ import annotations

import math
from typing import Any, Dict, List

from .common import derive_seed, exc_key, rng_for, short_tb

DT_WEIGHTS = [("float64", 0.55), ("float32", 0.2), ("bfloat16", 0.15), ("float16", 0.10)]


def feature(fn: str, cfg: Dict[str, Any]) -> str:
    """Structural discriminator of a configuration, used in mechanism keys."""
    if fn == "cross_entropy":
        if cfg.get("ignore_mode") in ("some", "custom", "all") and cfg.get("reduction") == "mean":
            return "mean+ignored-targets"
        return cfg.get("reduction", "")
    if fn == "add":
        return cfg.get("mode", "")
    if fn == "scaled_dot_product_attention":
        return ("causal" if cfg["is_causal"] else "") + ("+mask" if cfg["mask"] else "") + ("+dropout" if cfg["dropout_p"] else "")
    if fn == "embedding":
        return ("max_norm" if cfg["max_norm"] else "") + ("+padding_idx" if cfg["padding_idx"] is not None else "")
    if fn == "matmul":
        return "equal-batch" if cfg["equal_batch"] else "broadcast-batch"
    if fn == "conv1d":
        return ("batched" if cfg["batch"] is not None else "unbatched") + ("+groups" if cfg["groups"] > 1 else "")
    return ""


def gen_op_cases(prop: str, tier: str, seed: int, n_quick: int, n_thorough: int, dtypes=True) -> List[Dict[str, Any]]:
    from .optable import OPS

    n = n_quick if tier == "quick" else n_thorough
    names = sorted(OPS)
    cases = []
    for i in range(n):
        rng = rng_for(seed, prop, "op", i)
        fn = names[i % len(names)]
        op = OPS[fn]
        cfg = op.gen(rng)
        cons = op.constraints()
        constraint = cons[(i // len(names)) % len(cons)] if rng.random() < 0.8 else "default"
        if op.constraint_kind is None:
            constraint = "n/a"
        r = rng.random()
        dt = "float64"
        if dtypes:
            acc = 0.0
            for name, w in DT_WEIGHTS:
                acc += w
                if r < acc:
                    dt = name
                    break
        # argument FORM: same values through other strides (slices / transposes), an upstream gradient that is expanded (what
        # y.sum(-1).backward() hands down) or strided, and one differentiable input that does not require a gradient
        r2 = rng.random()
        if r2 < 0.30:
            cfg["_layout"] = rng.choice(["noncontig", "up-expanded", "up-noncontig", "all-noncontig"])
        if len(op.diff) >= 2 and rng.random() < 0.12:
            cfg["_frozen"] = rng.choice(sorted(op.diff))
        if rng.random() < 0.2:
            cfg["_positional"] = True
        # data MAGNITUDE: the two draws of a configuration differ in scale, not only in sign pattern
        if fn in ("rms_norm", "layer_norm") and rng.random() < 0.5:
            cfg["_mags"] = [1e-4, 1, 300, 1, 3e-3]
            if dtypes and rng.random() < 0.6:
                dt = rng.choice(["float16", "float16", "bfloat16"])  # where a square or a sum can overflow / underflow
        elif fn in ("gelu", "silu", "silu_glu", "softmax", "dropout", "add", "mse_loss") and rng.random() < 0.25:
            cfg["_mags"] = [1e-2, 1, 50, 1, 7]
        if fn == "conv1d" and dt in ("bfloat16", "float16"):
            # PyTorch's own low-precision CPU conv kernels are unusable as a reference: bfloat16 conv1d backward returns
            # uninitialised memory in padding-only positions (not reproducible run to run, shown with plain F.conv1d) and
            # float16 conv1d with L=1 + padding segfaults. conv1d is exercised in float32 / float64 only.
            dt = "float32"
        cases.append({"kind": "op", "fn": fn, "cfg": cfg, "constraint": constraint, "dtype": dt,
                      "seeds": [derive_seed(seed, prop, i, k) % (2**31) for k in range(4)]})
    return cases


def sig_of(case: Dict[str, Any]) -> str:
    cfg = case["cfg"]
    shape_bits = {k: v for k, v in cfg.items() if not isinstance(v, float)}
    return f"{case['fn']}|{case['constraint']}|{case['dtype']}|{sorted(shape_bits.items())}"


def rel_close(a: float, b: float, tol: float) -> bool:
    return abs(a - b) <= tol * max(abs(a), abs(b), 1e-300)
