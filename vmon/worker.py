"""Long-lived worker: runs a shard of cases of one property inside one process.

usage: python -m vmon.worker <property> <cases.json> <out.jsonl> <repo_root>
"""

from __future__ import annotations

import importlib
import json
import os
import sys
import time


def boot(repo_root: str):
    """Import torch + the repository package from repo_root, pin determinism."""
    deps = os.path.join(os.environ.get("VERIF_HOME", os.getcwd()), ".deps")
    if deps not in sys.path:
        sys.path.append(deps)  # appended: /venv's own packages keep precedence
    import warnings

    warnings.filterwarnings("ignore")
    import torch

    torch.set_num_threads(1)
    try:
        torch.set_num_interop_threads(1)
    except RuntimeError:
        pass
    torch.use_deterministic_algorithms(True, warn_only=True)
    import logging

    logging.getLogger("torch").setLevel(logging.ERROR)
    import unit_scaling

    got = os.path.realpath(os.path.dirname(unit_scaling.__file__))
    want = os.path.realpath(os.path.join(repo_root, "unit_scaling"))
    if got != want:
        raise SystemExit(f"unit_scaling imported from {got}, expected {want}")
    return unit_scaling


def main(argv):
    pid, cases_file, out_file, repo_root = argv[:4]
    t0 = time.time()
    boot(repo_root)
    from . import reach
    from .common import CaseCtx, exc_key, short_tb

    mod = importlib.import_module(f"vmon.props.{pid.lower()}")
    # make sure every repo module the property touches is imported before probing
    for extra in getattr(mod, "IMPORTS", []):
        importlib.import_module(extra)
    reach_on = False
    if getattr(mod, "REACH", True) and os.environ.get("VMON_NO_REACH") != "1":
        reach_on = reach.start(os.path.join(repo_root, "unit_scaling"))
    with open(cases_file) as f:
        cases = json.load(f)
    state = {}
    if hasattr(mod, "setup"):
        mod.setup(state)
    with open(out_file, "w") as out:
        out.write(json.dumps({"boot_s": round(time.time() - t0, 2)}) + "\n")
        for case in cases:
            ctx = CaseCtx(case)
            ctx.state = state
            t1 = time.time()
            try:
                mod.run_case(case, ctx)
            except Exception as e:  # a harness bug: reported as inconclusive, never hidden
                ctx.counters["harness_error"] = 1
                ctx.notes.append("HARNESS-ERROR " + exc_key(e) + "\n" + short_tb(e, 12))
            rec = ctx.to_json()
            rec["t"] = round(time.time() - t1, 4)
            out.write(json.dumps(rec) + "\n")
            out.flush()
        final = CaseCtx({"id": "__finish__"})
        final.state = state
        if hasattr(mod, "finish"):
            try:
                mod.finish(final)
            except Exception as e:
                final.counters["harness_error"] = 1
                final.notes.append("HARNESS-ERROR(finish) " + exc_key(e) + "\n" + short_tb(e, 12))
        rec = final.to_json()
        rec["trailer"] = True
        rec["reach"] = reach.snapshot() if reach_on else None
        rec["reach_on"] = reach_on
        out.write(json.dumps(rec) + "\n")


if __name__ == "__main__":
    main(sys.argv[1:])
