"""C17 - transforms are non-destructive and compose in any order."""

from __future__ import annotations

import itertools
import logging
from typing import Any, Dict, List

from ..common import derive_seed, exc_key, rng_for

PROPERTY = "C17"
LEVEL = "exploration"
RULE = ("history monitor over chains: every ordering that uses unit_scale at most once and at most one format simulation (simulate_fp8 / "
        "lossless / E5M2-nearest / pinned-random stochastic), optionally ended by track_scales (or compile, thorough tier), applied to "
        "generated small modules (MLP, residual block, attention block, plain chains; float32), followed by 1-3 forward/backward "
        "calls; in half of the longer chains every intermediate module is itself run forward+backward before the next transform; a "
        "'uu' family is built from unit-scaled layers. Observed: bit snapshots + storage-pointer sets of the original and of every intermediate, per-call outputs and "
        "gradients, result.backends, captured library log records (backend runs), FPFormat.quantise call counts; chains with both "
        "transforms are also run in the swapped order. Oracle: original bit-unchanged and storage-disjoint; repeated calls identical; "
        "both orders equal each other and the recipe-then-quantised reference interpreter; per trace each backend runs exactly once, "
        "unit scaling first; quantise calls = 2 per linear + 3 per attention forward, 1 per op backward. Non-trivial = chain length "
        ">= 2; distinct = (chain, format, emitted source). A third of the modules hold some parameters as float buffers (state_dict and storage comparisons cover them). Another third of the modules have frozen parameters; a quarter of the cases make a rejected call first; a third call the result under torch.no_grad().")
ASSUMPTIONS = ["random source pinned by a shape-keyed deterministic generator", "unit_scaling.functional and FPFormat.quantise as established by C01-C06, C13-C14"]
IMPORTS = ["unit_scaling.transforms", "unit_scaling.transforms.utils", "unit_scaling.transforms._unit_scale", "unit_scaling.transforms._compile"]
REQUIRED_MONITORS = ["chains:run", "original:bit-compared", "alias:storage-sets-compared", "repeat:calls-compared", "order:swapped-compared",
                     "log:traces-checked", "quantise-count:checked", "reference:compared"]
REQUIRED_REACH = {"transforms/utils.py": ["apply_transform", "_compose_backends.<locals>.composite_backend", "apply_transform.<locals>.new_forward"],
                  "transforms/_unit_scale.py": ["_order_backends", "unit_scale"]}
MIN_NONTRIVIAL = {"quick": 50, "thorough": 600}
WATCHDOG = {"quick": 2400, "thorough": 6 * 3600}
FMTS = ["fp8", "lossless", "e5m2-nearest", "stochastic4"]


def all_chains(with_compile: bool) -> List[List[str]]:
    base = [["us"], ["sim"], ["us", "sim"], ["sim", "us"]]
    out = [list(c) for c in base]
    out += [c + ["track"] for c in base] + [["track"]]
    if with_compile:
        out += [["us", "compile"], ["compile"]]
    return out


def gen_cases(tier: str, seed: int) -> List[Dict[str, Any]]:
    cases = []
    chains = all_chains(tier == "thorough")
    n_mod = 8 if tier == "quick" else 24
    i = 0
    for mi in range(n_mod):
        for chain in chains:
            fmts = FMTS if "sim" in chain else ["n/a"]
            if tier == "quick" and "sim" in chain:
                rng = rng_for(seed, PROPERTY, "fmt", mi, str(chain))
                fmts = rng.sample(FMTS, 2)
            for fmt in fmts:
                for calls in ([2] if tier == "quick" else [1, 2, 3]):
                    rng = rng_for(seed, PROPERTY, "prof", i)
                    cases.append({"chain": chain, "fmt": fmt, "calls": calls, "seed": derive_seed(seed, PROPERTY, "m", mi) % (2**31),
                                  "family": ["mlp", "residual", "attention", "mixed", "uu"][mi % 5],
                                  # histories in which every intermediate module is itself USED (forward+backward) before the next
                                  # transform is applied to it
                                  "call_intermediates": len(chain) >= 2 and rng.random() < 0.5})
                    i += 1
    return cases


def family_profile(family: str) -> Dict[str, Any]:
    if family == "mlp":
        return {"dtype": "float32", "max_ops": 3, "residual": 0, "forms": [], "quant_focus": True}
    if family == "residual":
        return {"dtype": "float32", "max_ops": 5, "residual": 2, "forms": []}
    if family == "attention":
        return {"dtype": "float32", "max_ops": 4, "residual": 1, "forms": [], "quant_focus": True}
    if family == "uu":
        # modules built from unit-scaled layers (uu.Linear / U.linear): judged on everything except equality with the
        # recipe reference when unit_scale is in the chain (unit_scale on already unit-scaled ops is outside C16's statement)
        return {"dtype": "float32", "max_ops": 4, "residual": 1, "forms": ["uu"], "quant_focus": True}
    return {"dtype": "float32", "max_ops": 8, "residual": 2, "forms": ["embedding", "bias_kw"]}


class LogCapture(logging.Handler):
    def __init__(self):
        super().__init__(level=logging.INFO)
        self.records: List[str] = []

    def emit(self, record):
        self.records.append(record.getMessage())


def storage_ptrs(m) -> set:
    out = set()
    for t in list(m.parameters()) + list(m.buffers()):
        out.add(t.untyped_storage().data_ptr())
    return out


def run_case(case: Dict[str, Any], ctx) -> None:
    import torch
    import torch._dynamo
    from unit_scaling.formats import FPFormat
    from unit_scaling.transforms import compile as us_compile
    from unit_scaling.transforms import simulate_format, simulate_fp8, track_scales, unit_scale
    from .. import progs
    from ..instruments import bits_equal, pinned_randint, shape_keyed_randint
    from .c15 import QuantLog

    ctx.count("evaluations")
    rng = rng_for(case["seed"], "prog")
    prog = progs.gen_program(rng, family_profile(case["family"]))
    m, src = progs.build_module(prog, case["seed"])
    ctx.sample({"emitted_source": src, "chain": case["chain"], "format": case["fmt"]})
    if case["seed"] % 3 == 0:
        # some directly held parameters become float BUFFERS (the statement names buffers: unchanged, no storage shared)
        brng = rng_for(case["seed"], "buffers")
        direct = [n for n, _ in m.named_parameters() if "." not in n]
        for n in direct[1:]:  # keep at least one trainable leaf
            if brng.random() < 0.5:
                p = m._parameters.pop(n)
                m.register_buffer(n, p.detach().clone())
        if any(True for _ in m.buffers()):
            ctx.count("form:module-with-float-buffers")
    elif case["seed"] % 3 == 1:
        # some parameters FROZEN (requires_grad=False), e.g. a pretrained trunk under a trainable head
        frng = rng_for(case["seed"], "frozen")
        ps = list(m.parameters())
        for p_ in ps[1:]:
            if frng.random() < 0.5:
                p_.requires_grad_(False)
        if any(not p_.requires_grad for p_ in ps):
            ctx.count("form:module-with-frozen-parameters")
    inputs = progs.make_inputs(prog, case["seed"] + 5)
    chain, fmt = case["chain"], case["fmt"]
    key = "C17"

    def formats():
        if fmt in ("fp8", "n/a"):
            return FPFormat(4, 3), FPFormat(5, 2)
        if fmt == "lossless":
            return FPFormat(8, 23, "nearest"), FPFormat(8, 23, "nearest")
        if fmt == "e5m2-nearest":
            return FPFormat(5, 2, "nearest"), FPFormat(5, 2, "nearest")
        return FPFormat(4, 3, "stochastic", 4), FPFormat(5, 2, "stochastic", 4)

    fwd, bwd = formats()

    def apply(name, mod):
        if name == "us":
            return unit_scale(mod)
        if name == "sim":
            return simulate_fp8(mod) if fmt == "fp8" else simulate_format(mod, fwd, bwd)
        if name == "track":
            return track_scales(mod)
        if name == "compile":
            return us_compile(mod)
        raise AssertionError(name)

    def run(mod, n_calls, log=None):
        res = []
        params = {k: v for k, v in mod.named_parameters()}
        for _ in range(n_calls):
            ins = [t.detach().clone().requires_grad_(True) if t.is_floating_point() else t.clone() for t in inputs]
            n0 = len(log.records) if log else 0
            with QuantLog() as q, pinned_randint(shape_keyed_randint):
                out = mod(*ins)
                outs = list(out) if isinstance(out, (tuple, list)) else [out]
                nf = len(q.calls)
                g = torch.Generator().manual_seed(case["seed"] + 9)
                ups = [torch.randn(y.shape, generator=g, dtype=y.dtype) for y in outs]
                leaves = [t for t in ins if t.is_floating_point()] + [params[k] for k in sorted(params) if params[k].requires_grad]
                grads = torch.autograd.grad(outs, leaves, ups, allow_unused=True)
                nb = len(q.calls) - nf
            res.append({"outs": [o.detach() for o in outs], "grads": grads, "qf": nf, "qb": nb, "log": list(log.records[n0:]) if log else [], "ups": ups})
        return res

    def backward_once(mod):
        """one ordinary training-style step: loss.backward() accumulating into the .grad fields"""
        ins = [t.detach().clone().requires_grad_(True) if t.is_floating_point() else t.clone() for t in inputs]
        with pinned_randint(shape_keyed_randint):
            out = mod(*ins)
            outs = list(out) if isinstance(out, (tuple, list)) else [out]
            live = [y for y in outs if y.requires_grad]
            if live:
                sum((y * torch.ones_like(y)).sum() for y in live).backward()

    # the original has been trained on before it is transformed: its parameters carry accumulated gradients
    grads0: Dict[str, Any] = {}
    if case["seed"] % 2 == 0:
        try:
            backward_once(m)
            grads0 = {k: p.grad.detach().clone() for k, p in m.named_parameters() if p.grad is not None}
            ctx.count("history:original-has-accumulated-gradients")
        except Exception:
            grads0 = {}
    # ---- snapshot the original -------------------------------------------------------------------------
    snap = {k: v.detach().clone() for k, v in m.state_dict().items()}
    ptr0 = storage_ptrs(m)
    base = run(m, 1)[0]
    handler = LogCapture()
    lg = logging.getLogger("unit_scaling")
    old_level = lg.level
    lg.addHandler(handler)
    lg.setLevel(logging.INFO)
    try:
        stages = [m]
        mids: List[Any] = []
        try:
            for name in chain:
                prev = stages[-1]
                n_back = len(getattr(prev, "backends", []))
                mid_before = None
                if case.get("call_intermediates") and prev is not m:
                    mid_before = run(prev, 1)[0]
                    ctx.count("intermediate:called-before-next-transform")
                nxt = apply(name, prev)
                if mid_before is not None:
                    mids.append((prev, mid_before, list(chain[:len(stages) - 1])))
                if len(getattr(prev, "backends", [])) != n_back:
                    ctx.violation(f"{key}:earlier-module-backend-list-modified", f"applying {name} changed the backend list of its input module", chain=chain)
                stages.append(nxt)
        except Exception as e:
            ctx.violation(f"{key}:transform-raises:{'>'.join(chain)}:{exc_key(e)}", repr(e), source=src)
            return
        result = stages[-1]
        ctx.count("chains:run")
        # ---- non-destructiveness: storage ------------------------------------------------------------------
        ctx.count("alias:storage-sets-compared", len(stages) - 1)
        for i, st in enumerate(stages[1:]):
            shared = storage_ptrs(st) & ptr0
            if shared:
                ctx.violation(f"{key}:result-shares-storage-with-original", f"after {chain[:i+1]}: {len(shared)} tensors share storage with the original module", source=src)
                break
        for a, b in itertools.combinations(range(1, len(stages)), 2):
            if storage_ptrs(stages[a]) & storage_ptrs(stages[b]):
                ctx.violation(f"{key}:nested-results-share-storage", f"results of {chain[:a]} and {chain[:b]} share parameter storage", source=src)
                break
        # ---- execute ------------------------------------------------------------------------------------------
        if case["seed"] % 4 == 2:
            try:  # history: a rejected call first (wrong number of arguments, caught by the caller)
                result()
            except Exception:
                ctx.count("history:rejected-call-first")
            handler.records.clear()
        torch._dynamo.utils.counters.clear()
        try:
            runs = run(result, case["calls"], handler)
        except Exception as e:
            ctx.violation(f"{key}:transformed-module-raises:{'>'.join(chain)}:{exc_key(e)}", repr(e), source=src, fmt=fmt)
            return
        if sum(torch._dynamo.utils.counters["graph_break"].values()):
            ctx.count("excluded:graph-break")
            ctx.skip("graph break")
            return
        # ---- original untouched (parameters, outputs, gradients) --------------------------------------
        ctx.count("original:bit-compared")
        now = m.state_dict()
        if any(not bits_equal(now[k], v) for k, v in snap.items()) or storage_ptrs(m) != ptr0:
            ctx.violation(f"{key}:original-parameters-changed", f"chain {chain}", source=src)
        again = run(m, 1)[0]
        if any(not bits_equal(a, b) for a, b in zip(again["outs"], base["outs"])) or any(
                (a is None) != (b is None) or (a is not None and not bits_equal(a, b)) for a, b in zip(again["grads"], base["grads"])):
            ctx.violation(f"{key}:original-outputs-or-gradients-changed", f"chain {chain}", source=src)
        # ---- .grad fields: a training-style backward of the RESULT must not touch the original's accumulated gradients ---------
        if grads0:
            try:
                backward_once(result)
                gp0 = {p.grad.untyped_storage().data_ptr() for p in m.parameters() if p.grad is not None}
                gp1 = {p.grad.untyped_storage().data_ptr() for p in result.parameters() if p.grad is not None}
                ctx.count("alias:grad-fields-compared")
                changed = [k for k, p in m.named_parameters() if k in grads0 and (p.grad is None or not bits_equal(p.grad, grads0[k]))]
                if changed or (gp0 & gp1):
                    ctx.violation(f"{key}:original-accumulated-gradients-touched-by-the-result",
                                  f"chain {chain}: after loss.backward() on the result, .grad of {changed[:3]} of the ORIGINAL changed; shared .grad storages: {len(gp0 & gp1)}",
                                  source=src)
            except Exception as e:
                ctx.violation(f"{key}:transformed-module-raises:backward:{'>'.join(chain)}:{exc_key(e)}", repr(e), source=src)
        # ---- intermediates that were used before being transformed again are untouched as well ------
        for mod_i, before_i, prefix in mids:
            again_i = run(mod_i, 1)[0]
            if _differs(again_i["outs"], again_i["grads"], before_i["outs"], before_i["grads"], 0.0):
                ctx.violation(f"{key}:intermediate-module-changed-by-a-later-transform", f"module after {prefix} gives different results once {chain} was built and run",
                              source=src)
                break
        # ---- the transformed module with autograd off (evaluation): same forward values -------------------------------
        if case["seed"] % 3 == 2 and "compile" not in chain:
            try:
                with torch.no_grad(), pinned_randint(shape_keyed_randint):
                    out_n = result(*[t.detach().clone() for t in inputs])
                outs_n = list(out_n) if isinstance(out_n, (tuple, list)) else [out_n]
                ctx.count("mode:no_grad-compared")
                for a_, b_ in zip(outs_n, runs[0]["outs"]):
                    sc_ = max(float(b_.abs().max()), 1e-30)
                    if tuple(a_.shape) != tuple(b_.shape) or float((a_ - b_).abs().max()) > 1e-5 * sc_:
                        ctx.violation(f"{key}:no_grad-call-computes-something-else:{'>'.join(chain)}", f"chain {chain}, format {fmt}", source=src)
                        break
            except Exception as e:
                ctx.violation(f"{key}:transformed-module-raises-under-no_grad:{'>'.join(chain)}:{exc_key(e)}", repr(e), source=src)
        # ---- repeated calls identical ------------------------------------------------------------------------
        for r in runs[1:]:
            ctx.count("repeat:calls-compared")
            same = all(bits_equal(a, b) for a, b in zip(r["outs"], runs[0]["outs"])) and all(
                (a is None and b is None) or (a is not None and b is not None and bits_equal(a, b)) for a, b in zip(r["grads"], runs[0]["grads"]))
            if not same:
                ctx.violation(f"{key}:repeated-call-differs", f"chain {chain}, format {fmt}: call 2 differs from call 1 (random source pinned)", source=src)
                break
        # ---- log: each backend exactly once per trace, unit scaling first ---------------------------
        ctx.count("log:traces-checked")
        first = runs[0]["log"]
        n_us = sum(1 for r in first if r == "running unit scaling backend")
        n_q = sum(1 for r in first if r == "running quantisation backend")
        want_us, want_q = int("us" in chain), int("sim" in chain)
        if (n_us, n_q) != (want_us, want_q):
            ctx.violation(f"{key}:backend-run-count", f"chain {chain}: first call ran unit-scaling backend {n_us}x, quantisation backend {n_q}x (expected {want_us}, {want_q})",
                          source=src)
        elif want_us and want_q:
            if first.index("running unit scaling backend") > first.index("running quantisation backend"):
                ctx.violation(f"{key}:quantisation-ran-before-unit-scaling", f"chain {chain}", source=src)
        for r in runs[1:]:
            if any(x.startswith("running ") for x in r["log"]):
                ctx.violation(f"{key}:re-traced-on-a-later-call", f"chain {chain}: backends ran again on call 2", source=src)
                break
        names = [getattr(b, "__qualname__", type(b).__qualname__) for b in getattr(result, "backends", [])]
        iu = [i for i, n in enumerate(names) if "unit_scaling_backend" in n]
        iq = [i for i, n in enumerate(names) if "quantisation_backend" in n]
        if len(names) != len(chain) or (iu and iq and iu[0] > iq[0]):
            ctx.violation(f"{key}:backend-list-wrong", f"chain {chain}: result.backends = {names}", source=src)
        # ---- quantise call counts -----------------------------------------------------------------------------
        n_lin = sum(1 for o in prog["ops"] if o["op"] in ("linear_f", "nn_linear", "uu_linear", "U_linear"))
        n_att = sum(1 for o in prog["ops"] if o["op"] == "sdpa")
        if "sim" in chain:
            ctx.count("quantise-count:checked")
            wf, wb = 2 * n_lin + 3 * n_att, n_lin + n_att
            for r in runs:
                if (r["qf"], r["qb"]) != (wf, wb):
                    ctx.violation(f"{key}:quantisation-applied-a-wrong-number-of-times", f"chain {chain}: {r['qf']} forward / {r['qb']} backward quantise calls, expected {wf} / {wb} "
                                  f"({n_lin} linear, {n_att} attention ops)", source=src)
                    break
        # ---- reference -------------------------------------------------------------------------------------------
        if "compile" not in chain and not (case["family"] == "uu" and "us" in chain):
            params = {k: v for k, v in result.named_parameters()}
            pref = {k: v.detach().clone().requires_grad_(True) for k, v in params.items()}
            pref.update({k: v.detach().clone() for k, v in result.named_buffers() if k not in pref})
            ins_r = [t.detach().clone().requires_grad_(True) if t.is_floating_point() else t.clone() for t in inputs]
            with pinned_randint(shape_keyed_randint):
                mod_attrs = {md["name"]: {"constraint": "to_output_scale"} for md in prog["mods"] if md["type"] == "uu.Linear"}
                outs_r, _ = progs.interpret(prog, pref, ins_r, "recipe" if "us" in chain else "plain", quant=progs.Quant(fwd, bwd) if "sim" in chain else None,
                                            mod_attrs=mod_attrs)
                leaves_r = [t for t in ins_r if t.is_floating_point()] + [pref[k] for k in sorted(params) if params[k].requires_grad]
                gr = torch.autograd.grad(outs_r, leaves_r, runs[0]["ups"], allow_unused=True)
            ctx.count("reference:compared")
            bad = _differs(runs[0]["outs"], runs[0]["grads"], [o.detach() for o in outs_r], gr, 2e-5)
            if bad:
                ctx.violation(f"{key}:result-differs-from-reference:{'>'.join(chain)}", f"{bad}; format {fmt}", source=src)
        # ---- swapped order ------------------------------------------------------------------------------------------
        if "us" in chain and "sim" in chain:
            sw = list(chain)
            i, j = sw.index("us"), sw.index("sim")
            sw[i], sw[j] = sw[j], sw[i]
            try:
                mod2 = m
                for name in sw:
                    mod2 = apply(name, mod2)
                runs2 = run(mod2, 1)
                ctx.count("order:swapped-compared")
                bad = _differs(runs[0]["outs"], runs[0]["grads"], runs2[0]["outs"], runs2[0]["grads"], 1e-6)
                if bad:
                    ctx.violation(f"{key}:order-of-application-changes-the-function", f"{chain} vs {sw}: {bad}; format {fmt}", source=src)
            except Exception as e:
                ctx.violation(f"{key}:transformed-module-raises:{'>'.join(sw)}:{exc_key(e)}", repr(e), source=src)
    finally:
        lg.removeHandler(handler)
        lg.setLevel(old_level)
    if len(chain) >= 2:
        ctx.nontrivial(f"{'>'.join(chain)}|{fmt}|{case['calls']}|mid={case.get('call_intermediates')}|{src}")
    else:
        ctx.count("trivial:single-transform")


def _differs(outs_a, grads_a, outs_b, grads_b, tol):
    import torch

    for i, (a, b) in enumerate(zip(outs_a, outs_b)):
        if tuple(a.shape) != tuple(b.shape):
            return f"output {i}: shapes {tuple(a.shape)} vs {tuple(b.shape)}"
        sc = max(float(b.abs().max()), 1e-30)
        err = float((a - b).abs().max()) / sc
        if not err <= tol:
            return f"output {i}: rel err {err:.3e}"
    from ..instruments import grads_differ

    bad = grads_differ(grads_a, grads_b, tol) if tol > 0 else None
    if tol == 0:
        for i, (a, b) in enumerate(zip(grads_a, grads_b)):
            if (a is None) != (b is None) or (a is not None and not torch.equal(a, b)):
                return f"gradient {i}: not bit-identical"
    return ("gradient " + bad) if bad else None
