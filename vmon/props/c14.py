"""C14 - stochastic rounding picks a neighbour with exactly proportional probability."""

from __future__ import annotations

from typing import Any, Dict, List

from ..common import derive_seed, exc_key, rng_for

PROPERTY = "C14"
LEVEL = "exploration"
RULE = ("formats E 2..7 x M 0..10 x srbits in {1..12, default}; inputs: representable values, midpoints, +-ulp neighbours, random "
        "mantissas over the format's exponent range, sub-minimum-normal inputs, values beyond the range. torch.randint is replaced "
        "from the harness by an ENUMERATOR (arange % 2^srbits), so one quantise call on an (inputs x 2^srbits) tensor yields, per "
        "input, the exact multiset of results over all draws: probabilities are counted, not estimated. A second run with a SPY on "
        "the real generator checks the draw request (one call, size == x.shape, range [0,2^srbits)) and that each element's result "
        "is the enumerated result for its own recorded draw. Every case first quantises with OTHER srbits / nearest rounding of the "
        "same (E, M) in the same process (history). Non-trivial = input strictly between two representable values; "
        "distinct = (E, M, srbits) combinations x input class. The enumerated argument is a broadcast view (stride 0), column-major, or contiguous (one third each).")
ASSUMPTIONS = ["the random source is torch.randint looked up on the torch module at call time (rebinding it is the substitution point)",
               "float64 arithmetic on float32 values is exact"]
IMPORTS = ["unit_scaling.formats"]
REQUIRED_MONITORS = ["enumerated:inputs", "enumerated:draws", "count:exact-clause", "count:half-unit-clause", "spy:randint-calls", "spy:elements-matched"]
REQUIRED_REACH = {"formats.py": ["FPFormat.quantise", "FPFormat.__post_init__"]}
MIN_NONTRIVIAL = {"quick": 300, "thorough": 700}
EXHAUSTIVE_NOTE = {"quick": "all 2^srbits draws enumerated for every judged input", "thorough": "all 2^srbits draws enumerated for every judged input"}


def gen_cases(tier: str, seed: int) -> List[Dict[str, Any]]:
    cases = []
    q = tier == "quick"
    for E in range(2, 8):
        for M in range(0, 11):
            srs = list(range(1, 13)) + ["default"]
            if q:
                rng = rng_for(seed, PROPERTY, E, M)
                srs = sorted(rng.sample(range(1, 13), 4)) + ["default"]
            for sr in srs:
                eff = 23 - M if sr == "default" else sr
                if eff > 23 - M:
                    continue  # more random bits than discarded bits: not a valid configuration
                if eff > 20:
                    continue  # not enumerable (stated bound)
                cases.append({"E": E, "M": M, "srbits": sr, "n_inputs": (24 if eff > 16 else 200 if eff > 12 else 1500) // (2 if q else 1),
                              "seed": derive_seed(seed, PROPERTY, E, M, sr) % (2**31)})
    return cases


def setup(state):
    from ..oracles import fpformat_exact as O

    O.self_check()


def _inputs(E, M, n, seed):
    import torch
    from ..oracles import fpformat_exact as O

    g = torch.Generator().manual_seed(seed)
    mx = O.max_value(E, M)
    k = max(n // 6, 2)
    e = torch.randint(O.emin(E), O.emax(E) + 1, (k,), generator=g)
    m = torch.randint(0, 2**M, (k,), generator=g).double()
    rep = torch.ldexp(1 + m / 2**M, e)
    lo, up, sp = O.neighbours(rep, E, M)
    mids = torch.clamp(rep + sp / 2, max=mx)
    quarter = torch.clamp(rep + sp / 4, max=mx)
    r32 = torch.cat([rep, mids, quarter]).float()
    bits = r32.view(torch.int32)
    nb = torch.cat([bits + 1, bits - 1, bits + 3]).view(torch.float32)
    fields_lo, fields_hi = max(O.emin(E) - M - 2 + 127, 1), min(O.emax(E) + 1 + 127, 254)
    f = torch.randint(fields_lo, fields_hi + 1, (2 * k,), generator=g, dtype=torch.int32)
    rnd = ((f << 23) | torch.randint(0, 2**23, (2 * k,), generator=g, dtype=torch.int32)).view(torch.float32)
    # sub-minimum-normal inputs, on and off the min_normal*2^-23 grid
    mn = O.min_normal(E)
    sub_on = (torch.randint(1, 2**23, (k // 2 + 1,), generator=g).double() * mn * 2.0**-23).float()
    sub_off = (torch.rand(k // 2 + 1, generator=g, dtype=torch.float64) * mn).float()
    special = torch.tensor([0.0, mx, mx * 1.5, mn, O.min_subnormal(E, M), O.min_subnormal(E, M) / 2, O.min_subnormal(E, M) / 3], dtype=torch.float32)
    x = torch.cat([r32, nb, rnd, sub_on, sub_off, special])
    x = x[torch.isfinite(x)]
    idx = torch.randperm(x.numel(), generator=g)[: max(n - 8, 8)]
    x = torch.cat([x[idx], special])
    sign = torch.where(torch.rand(x.numel(), generator=g) < 0.5, -1.0, 1.0)
    return x * sign


def run_case(case: Dict[str, Any], ctx) -> None:
    import torch
    from unit_scaling.formats import FPFormat
    from ..instruments import pinned_randint
    from ..oracles import fpformat_exact as O

    E, M, sr = case["E"], case["M"], case["srbits"]
    ctx.count("evaluations")
    try:
        fmt = FPFormat(E, M, rounding="stochastic") if sr == "default" else FPFormat(E, M, rounding="stochastic", srbits=sr)
    except Exception as e:
        ctx.violation("C14:constructor-raises:" + exc_key(e), repr(e), case=case)
        return
    s = 23 - M if sr == "default" else sr
    key = f"C14:{'all-bits' if s == 23 - M else 'fewer-bits'}"
    if fmt.srbits != s:
        ctx.violation("C14:srbits-not-as-requested", f"format reports srbits={fmt.srbits}, requested {sr}", case=case)
    # history: the same E/M used just before with another srbits / rounding mode (a stale per-format cache would show here)
    try:
        for other in ({1, 3, 23 - M} - {s}):
            if 1 <= other <= 23 - M:
                FPFormat(E, M, rounding="stochastic", srbits=other).quantise(torch.tensor([1.1, -0.37, 2.5e-3]))
        FPFormat(E, M, rounding="nearest").quantise(torch.tensor([1.1, -0.37]))
        ctx.count("history:primed-with-other-formats-of-same-E-M")
    except Exception as e:
        ctx.violation("C14:raises:" + exc_key(e), repr(e), case=case)
        return
    x = _inputs(E, M, case["n_inputs"], case["seed"])
    n, D = x.numel(), 2**s
    calls: List[Any] = []

    def enumerator(low, high, size, dtype=torch.int64, device=None, **kw):
        calls.append((low, high, tuple(size), dtype))
        numel = 1
        for d in size:
            numel *= int(d)
        return (torch.arange(numel, dtype=torch.int64) % int(high)).reshape(tuple(size)).to(dtype)

    X = x[:, None].expand(n, D)
    if case["seed"] % 3 == 0:
        # the argument stays a BROADCAST VIEW (stride 0 along the draw axis: what expand() / the gradient of sum() hands over):
        # every element still needs its own draw
        ctx.count("form:broadcast-view-argument")
    elif case["seed"] % 3 == 1:
        X = X.t().contiguous().t()  # dense, column-major
        ctx.count("form:transposed-argument")
    else:
        X = X.contiguous()
    ver = X._version
    keep = X.clone()
    try:
        with pinned_randint(enumerator):
            Q = fmt.quantise(X)
    except Exception as e:
        ctx.violation(f"{key}:raises:" + exc_key(e), repr(e), case=case)
        return
    if X._version != ver or not torch.equal(X.view(torch.int32), keep.view(torch.int32)):
        ctx.violation(f"{key}:argument-modified", "quantise changed its argument")
    ctx.count("enumerated:inputs", n)
    ctx.count("enumerated:draws", n * D)
    if len(calls) != 1 or calls[0][2] != (n, D) or calls[0][0] != 0 or calls[0][1] != D:
        ctx.violation(f"{key}:random-draw-request", f"randint calls {calls[:3]}, expected one call (0, {D}, {(n, D)})", case=case)
        if not calls or calls[0][2] != (n, D):
            return
    mx = O.max_value(E, M)
    xd = x.double()
    ax = torch.clamp(xd.abs(), max=mx)
    lo, up, sp = O.neighbours(ax, E, M)
    AQ = Q.double().abs()
    is_lo = AQ == lo[:, None]
    is_up = AQ == up[:, None]
    bad = ~(is_lo | is_up)
    if bool(bad.any()):
        i = int(torch.nonzero(bad.any(dim=1))[0])
        j = int(torch.nonzero(bad[i])[0])
        ctx.violation(f"{key}:not-a-neighbour", f"x={float(xd[i])!r} ({float(xd[i]).hex()}) draw {j}: {float(Q[i, j])!r}; neighbours {float(lo[i])!r}/{float(up[i])!r}", case=case)
        return
    sgn = torch.signbit(Q) != torch.signbit(x)[:, None]
    if bool(sgn.any()):
        ctx.violation(f"{key}:sign-not-preserved", "some results changed sign", case=case)
    rep = lo == up
    if bool(rep.any()):
        ctx.count("representable-inputs", int(rep.sum()))
    nonrep = ~rep
    count_up = (is_up & ~is_lo).sum(dim=1).double()
    frac = torch.where(nonrep, (ax - lo) / torch.where(nonrep, up - lo, torch.ones_like(sp)), torch.zeros_like(ax))
    # inputs below the format's minimum normal that are not multiples of min_normal * 2^-23 are first rounded by the hardware to
    # that grid: only the half-unit bound applies to them
    mn = O.min_normal(E)
    grid = mn * 2.0**-23
    offgrid = (ax < mn) & (torch.floor(ax / grid) * grid != ax)
    exact = nonrep & ~offgrid & (s == 23 - M)
    if bool(exact.any()):
        ctx.count("count:exact-clause", int(exact.sum()))
        want = frac * D
        wrong = exact & (count_up != want)
        if bool(wrong.any()):
            i = int(torch.nonzero(wrong)[0])
            ctx.violation(f"{key}:probability-not-exactly-proportional",
                          f"x={float(xd[i])!r} ({float(xd[i]).hex()}): rounds away from zero for {int(count_up[i])} of {D} draws, fractional position x 2^srbits = {float(want[i])!r}",
                          case=case)
    rest = nonrep & ~exact
    if bool(rest.any()):
        ctx.count("count:half-unit-clause", int(rest.sum()))
        tol = torch.full_like(frac, 2.0 ** -(s + 1)) + torch.where(offgrid, torch.full_like(frac, 2.0 ** -(23 - M + 1)), torch.zeros_like(frac))
        wrong = rest & ((count_up / D - frac).abs() > tol + 1e-15)
        if bool(wrong.any()):
            i = int(torch.nonzero(wrong)[0])
            ctx.violation(f"{key}:probability-off-by-more-than-half-unit",
                          f"x={float(xd[i])!r} ({float(xd[i]).hex()}): P(away)={float(count_up[i]) / D!r}, fractional position {float(frac[i])!r}, allowed +-{float(tol[i])!r}",
                          case=case, offgrid=bool(offgrid[i]))
    if bool(nonrep.any()):
        ctx.nontrivial(f"E{E}M{M}|sr={sr}")
    # ---- spy on the real generator: independence of elements ------------------------------------
    if s <= 12 and bool(nonrep.any()):
        cand = torch.nonzero(nonrep & (frac > 0.2) & (frac < 0.8))
        i = int(cand[0]) if cand.numel() else int(torch.nonzero(nonrep)[0])
        table = Q[i].clone()  # result for every draw value, from the enumerated run
        shape = (7, 33)
        Y = torch.full(shape, float(x[i]), dtype=torch.float32)
        rec: List[Any] = []

        def make_spy(orig):
            def spy(low, high, size, **kw):
                r = orig(low, high, size, **kw)
                rec.append((low, high, tuple(size), kw.get("dtype"), r.clone()))
                return r
            return spy

        torch.manual_seed(case["seed"])
        import torch as _t
        from ..instruments import _ORIG_RANDINT
        with pinned_randint(make_spy(_ORIG_RANDINT)):
            Z = fmt.quantise(Y)
        ctx.count("spy:randint-calls", len(rec))
        if len(rec) != 1 or rec[0][2] != shape or rec[0][0] != 0 or rec[0][1] != D:
            ctx.violation(f"{key}:random-draw-request", f"real-generator run: calls {[(r[0], r[1], r[2]) for r in rec][:3]}, expected one (0, {D}, {shape})", case=case)
        else:
            R = rec[0][4].long()
            ctx.count("spy:elements-matched", R.numel())
            if not torch.equal(Z, table[R]):
                ctx.violation(f"{key}:elements-do-not-use-their-own-draw", "result of an element differs from the enumerated result for its recorded draw", case=case)
            if bool(((R < 0) | (R >= D)).any()):
                ctx.violation(f"{key}:draw-out-of-range", "offset outside [0, 2^srbits)", case=case)
