"""C08 - modules equal their functional form, honour every option, start unit-scaled, are tagged."""

from __future__ import annotations

import math
from typing import Any, Dict, List, Optional

from ..common import derive_seed, exc_key, loguniform, rng_for
from ..opcheck import rel_close

PROPERTY = "C08"
LEVEL = "exploration"
RULE = ("'fwd' cases: (module class, constructor-option assignment, train/eval, input shape) - the module's output and all "
        "input/parameter gradients are compared (i) bit-for-bit with the harness's own unit_scaling.functional call built from the "
        "module's public attributes, (ii) by scalar fit with the same-named torch.nn twin loaded with the same parameters (two data "
        "draws; equal output shape); an accepted option that first fails in forward() is a late rejection. 'init' cases: fresh "
        "modules with >= 2^14 weights: 6-sigma mean/variance test, zero biases, unit gains, tag table. 'depth' cases: depth "
        "containers tag all inner parameters and refuse untagged ones. Non-trivial = at least one option differs from its default; "
        "distinct = (class, option assignment, mode, input rank). The functional form takes every scalar option from the CONSTRUCTOR CALL (the module only lends its parameters), so an option dropped or stored wrongly at construction shows; TransformerDecoder residual_scaling (documented rule with other arguments / the caller's own function); sizes include 1 and square shapes; Conv1d options as 1-tuples are honour-or-reject-at-construction cases. A quarter of the modules are constructed positionally in the documented order; a third of the cases compare module and functional form again with autograd off.")
ASSUMPTIONS = ["torch.nn twins are the reference semantics of each option", "6-sigma bounds for the initialisation statistics (false-alarm < 1e-8 per test)"]
IMPORTS = ["unit_scaling._modules", "unit_scaling.functional", "unit_scaling.parameter", "unit_scaling.docs"]
REQUIRED_MONITORS = ["functional:bit-compared", "twin:fitted", "init:stat-tests", "tags:checked", "depth:containers-checked", "reject:constructor-raised"]
REQUIRED_REACH = {"_modules.py": ["GELU.forward", "SiLU.forward", "Softmax.forward", "Dropout.forward", "Linear.forward", "LinearReadout.forward",
                                  "Conv1d.forward", "LayerNorm.forward", "RMSNorm.forward", "Embedding.forward", "CrossEntropyLoss.forward",
                                  "MLP.forward", "MHSA.forward", "TransformerLayer.forward", "Linear.reset_parameters", "Conv1d.reset_parameters",
                                  "DepthModuleList.__init__", "DepthSequential.__init__"],
                  "docs.py": ["_validate.<locals>._validate_args_supported"]}
MIN_NONTRIVIAL = {"quick": 300, "thorough": 15000}

BINARY = [None, "gmean", "hmean", "amean", "to_output_scale", "to_grad_input_scale"]
CLASSES = ["GELU", "SiLU", "Softmax", "Dropout", "Linear", "LinearReadout", "Conv1d", "LayerNorm", "RMSNorm", "Embedding", "CrossEntropyLoss",
           "MLP", "MHSA", "TransformerLayer", "TransformerDecoder"]


def _mult(rng):
    return 1.0 if rng.random() < 0.3 else round(loguniform(rng, 1 / 8, 8), 4)


def gen_options(cls: str, rng) -> Dict[str, Any]:
    """JSON-able constructor kwargs. '__reject__' marks assignments that must be refused at construction."""
    o: Dict[str, Any] = {}
    if cls == "GELU":
        o = {"mult": _mult(rng), "constraint": rng.choice(BINARY), "approximate": rng.choice(["none", "tanh"])}
    elif cls == "SiLU":
        o = {"mult": _mult(rng), "constraint": rng.choice(BINARY)}
        if rng.random() < 0.1:
            o.update(inplace=True, __reject__=True)
    elif cls == "Softmax":
        o = {"dim": rng.choice([-1, 0, 1, -2]), "mult": _mult(rng), "constraint": rng.choice(BINARY)}
    elif cls == "Dropout":
        o = {"p": rng.choice([0.0, 0.1, 0.5, 0.9])}
        if rng.random() < 0.1:
            o.update(inplace=True, __reject__=True)
    elif cls in ("Linear", "LinearReadout"):
        fi, fo = rng.sample([2, 3, 5, 7, 11], 2)
        r = rng.random()
        if r < 0.1:
            fo = fi  # square
        elif r < 0.2:
            fi, fo = rng.choice([(1, fo), (fi, 1), (1, 1)])  # a single input / output feature
        o = {"in_features": fi, "out_features": fo, "bias": rng.random() < 0.5, "constraint": rng.choice(BINARY)}
    elif cls == "Conv1d":
        groups = rng.choice([1, 1, 2, 3])
        ci, co = rng.sample([1, 2, 3, 4], 2)
        o = {"in_channels": ci * groups, "out_channels": co * groups, "kernel_size": rng.choice([1, 2, 3, 5]), "stride": rng.choice([1, 1, 2, 3]),
             "padding": rng.choice([0, 0, 1, 2]), "dilation": rng.choice([1, 1, 2]), "groups": groups, "bias": rng.random() < 0.5,
             "padding_mode": rng.choice(["zeros", "zeros", "reflect", "replicate", "circular"]), "constraint": rng.choice(BINARY)}
        r = rng.random()
        if r < 0.06:
            o.update(padding="same", stride=1, __reject__=True)
        elif r < 0.12:
            # torch.nn.Conv1d also takes 1-tuples; the library documents ints: honour the tuple or refuse it at construction
            name = rng.choice(["stride", "dilation", "padding"])
            o[name] = [o[name]]
            o.update(__reject__=True, __tuple_opt__=name)
    elif cls == "LayerNorm":
        o = {"normalized_shape": rng.choice([[7], [3, 5], 6, [7], [3, 5], 6, [1], [2]]), "eps": rng.choice([1e-5, 1e-3, 0.1]), "elementwise_affine": rng.random() < 0.6,
             "bias": rng.random() < 0.6}
    elif cls == "RMSNorm":
        o = {"normalized_shape": rng.choice([7, 6, (3, 5), 7, 6, (3, 5), 1, 2]), "eps": rng.choice([1e-5, 1e-3, 0.1]), "elementwise_affine": rng.random() < 0.6}
        if isinstance(o["normalized_shape"], tuple):
            o["normalized_shape"] = list(o["normalized_shape"])
            o["__tuple__"] = True
    elif cls == "Embedding":
        V = rng.choice([7, 11, 13, 7, 11, 13, 1, 2])
        o = {"num_embeddings": V, "embedding_dim": rng.choice([3, 4, 5]), "padding_idx": rng.choice([None, None, 0, V - 1, -1]),
             "max_norm": rng.choice([None, None, 0.7, 2.0]), "norm_type": rng.choice([2.0, 2.0, 1.0])}
        r = rng.random()
        if r < 0.06:
            o.update(scale_grad_by_freq=True, __reject__=True)
        elif r < 0.12:
            o.update(sparse=True, __reject__=True)
    elif cls == "CrossEntropyLoss":
        o = {"mult": _mult(rng), "ignore_index": rng.choice([-100, -100, 1, 0]), "reduction": rng.choice(["mean", "sum"])}
        r = rng.random()
        if r < 0.05:
            o.update(label_smoothing=0.1, __reject__=True)
        elif r < 0.10:
            o.update(weight="tensor", __reject__=True)
        elif r < 0.15:
            o.update(reduction="none", __reject__=True)
        elif r < 0.18:
            o.update(size_average=False, __reject__=True)
    elif cls == "MLP":
        o = {"hidden_size": rng.choice([4, 6, 8, 1]), "expansion_factor": rng.choice([1, 2, 4])}
    elif cls == "MHSA":
        heads = rng.choice([1, 2, 4])
        o = {"hidden_size": heads * rng.choice([2, 3, 4, 1]), "heads": heads, "is_causal": rng.random() < 0.5, "dropout_p": rng.choice([0.0, 0.0, 0.2]),
             "mult": _mult(rng)}
    elif cls == "TransformerLayer":
        heads = rng.choice([1, 2])
        o = {"hidden_size": heads * rng.choice([2, 4]), "heads": heads, "mhsa_tau": round(loguniform(rng, 0.05, 5), 4),
             "mlp_tau": round(loguniform(rng, 0.05, 5), 4), "is_causal": rng.random() < 0.5, "dropout_p": rng.choice([0.0, 0.0, 0.2])}
    elif cls == "TransformerDecoder":
        heads = rng.choice([1, 2])
        o = {"hidden_size": heads * rng.choice([2, 4]), "vocab_size": rng.choice([11, 17]), "layers": rng.choice([1, 2, 3]), "heads": heads,
             "dropout_p": rng.choice([0.0, 0.0, 0.2])}
        r = rng.random()
        if r < 0.35:  # the documented rule with non-default arguments
            o["residual_scaling"] = ["rule", rng.choice([0.25, 0.5, 2.0, 3.0]), rng.choice([0.5, 2.0, 1.0])]
        elif r < 0.6:  # the caller's own function of (index, count)
            o["residual_scaling"] = ["custom", round(rng.uniform(0.1, 0.9), 3), round(rng.uniform(0.01, 0.3), 3)]
    return o


def gen_cases(tier: str, seed: int) -> List[Dict[str, Any]]:
    n = 1500 if tier == "quick" else 120000
    cases: List[Dict[str, Any]] = []
    for i in range(n):
        rng = rng_for(seed, PROPERTY, i)
        cls = CLASSES[i % len(CLASSES)]
        o_ = gen_options(cls, rng)
        if rng.random() < 0.25:
            o_["__positional__"] = True
        cases.append({"kind": "fwd", "cls": cls, "opts": o_, "training": rng.random() < 0.6,
                      "dtype": rng.choice(["float64", "float64", "float64", "float32", "bfloat16"]),
                      "lead": rng.choice([0, 1, 1, 2]), "seed": derive_seed(seed, PROPERTY, "s", i) % (2**31)})
    n_init = 30 if tier == "quick" else 400
    for i in range(n_init):
        cases.append({"kind": "init", "which": ["Linear", "LinearReadout", "Conv1d", "Embedding", "LayerNorm", "RMSNorm", "MLP", "MHSA", "TransformerDecoder"][i % 9],
                      "seed": derive_seed(seed, PROPERTY, "init", i) % (2**31), "i": i})
    for i in range(20 if tier == "quick" else 300):
        cases.append({"kind": "depth", "seed": derive_seed(seed, PROPERTY, "depth", i) % (2**31), "i": i})
    return cases


# ---------------------------------------------------------------------------------------------
def build(cls: str, opts: Dict[str, Any], uu, torch):
    kw = {k: v for k, v in opts.items() if not k.startswith("__")}
    if cls == "RMSNorm" and opts.get("__tuple__"):
        kw["normalized_shape"] = tuple(kw["normalized_shape"])
    if kw.get("weight") == "tensor":
        kw["weight"] = torch.ones(5, dtype=torch.float64)
    if cls in ("Linear", "LinearReadout", "Conv1d", "LayerNorm", "Embedding"):
        kw["dtype"] = torch.float64
    if opts.get("__tuple_opt__"):
        kw[opts["__tuple_opt__"]] = tuple(kw[opts["__tuple_opt__"]])
    if "residual_scaling" in kw:
        kw["residual_scaling"] = _residual_fn(kw["residual_scaling"])
    if opts.get("__positional__") and not opts.get("__reject__"):
        # the constructor called with its arguments BY POSITION, in the documented order
        from ..api_orders import MODULES
        from ..instruments import positional_call
        m = positional_call(getattr(uu, cls), (), kw, MODULES[cls])
    else:
        m = getattr(uu, cls)(**kw)
    return m.to(torch.float64)


def make_input(cls: str, opts: Dict[str, Any], lead: int, gen, torch, m):
    lead_shape = [[], [4], [2, 3]][lead]

    def rn(*s):
        return torch.randn(*s, generator=gen, dtype=torch.float64)
    if cls in ("GELU", "SiLU", "Dropout"):
        return (rn(*(lead_shape + [5])),)
    if cls == "Softmax":
        return (rn(3, 4, 5),)
    if cls in ("Linear", "LinearReadout"):
        return (rn(*(lead_shape + [opts["in_features"]])),)
    if cls == "Conv1d":
        first = lambda v: v[0] if isinstance(v, (list, tuple)) else v
        k, d, p = opts["kernel_size"], first(opts["dilation"]), first(opts["padding"]) if not isinstance(opts["padding"], str) else 0
        L = d * (k - 1) + 1 + 6
        if opts["padding_mode"] in ("reflect", "circular"):
            L = max(L, p + 2)
        b = [] if lead == 0 else [3]
        return (rn(*(b + [opts["in_channels"], L])),)
    if cls in ("LayerNorm", "RMSNorm"):
        ns = opts["normalized_shape"]
        ns = [ns] if isinstance(ns, int) else list(ns)
        return (rn(*((lead_shape or [2]) + ns)),)
    if cls == "Embedding":
        V = opts["num_embeddings"]
        return (torch.randint(0, V, (lead_shape or [6]) + [3], generator=gen),)
    if cls == "CrossEntropyLoss":
        B, V = 6, 5
        t = torch.randint(0, V, (B,), generator=gen)
        if opts["reduction"] == "sum" and opts["ignore_index"] >= 0:
            t[0] = opts["ignore_index"]
        elif opts["ignore_index"] >= 0:
            t = torch.where(t == opts["ignore_index"], (t + 1) % V, t)
        return (rn(B, V), t)
    if cls in ("MLP", "MHSA", "TransformerLayer"):
        return (rn(2, 5, opts["hidden_size"]),)
    if cls == "TransformerDecoder":
        return (torch.randint(0, opts["vocab_size"], (2, 6), generator=gen),)
    raise AssertionError(cls)


_FROM_CALL = ("mult", "constraint", "approximate", "dim", "p", "eps", "padding_idx", "max_norm", "norm_type", "ignore_index", "reduction", "groups")


def _residual_fn(spec):
    """residual_scaling option: None = library default; ['rule', mult, ratio] = the documented rule; ['custom', a, b] = tau(i, n) = a + b*i"""
    from unit_scaling.core.functional import transformer_residual_scaling_rule

    if spec is None:
        return transformer_residual_scaling_rule()
    if spec[0] == "rule":
        return transformer_residual_scaling_rule(residual_mult=spec[1], residual_attn_ratio=spec[2])
    a, b = spec[1], spec[2]
    return lambda i, n: a + b * i


def functional_call(cls: str, m, args, U, torch, opts=None):
    """The harness's own functional-form computation, written from the API reference. Leaf modules: the module's public
    attributes (their options are cross-checked against the torch.nn twin built from the CONSTRUCTOR arguments). Composite
    modules (MHSA, TransformerLayer, TransformerDecoder) have no torch twin: their hyper-parameters are taken from the
    constructor arguments `opts`, the module only lends its parameters - an option the constructor drops or stores wrongly
    therefore shows as a difference."""
    import einops
    opts = opts or {}
    real = m

    class _H:
        """the module, except that scalar options named in the constructor call are read from THAT call (an option stored
        wrongly at construction would otherwise be invisible: forward() and this form would both read the wrong attribute)"""
        def __getattr__(self, k):
            if k in _FROM_CALL and k in opts and not str(k).startswith("__"):
                return opts[k]
            return getattr(real, k)

    if cls not in ("MLP", "MHSA", "TransformerLayer", "TransformerDecoder"):
        m = _H()
    x = args[0]
    if cls == "GELU":
        return U.gelu(x, mult=m.mult, constraint=m.constraint, approximate=m.approximate)
    if cls == "SiLU":
        return U.silu(x, mult=m.mult, constraint=m.constraint)
    if cls == "Softmax":
        return U.softmax(x, dim=m.dim, mult=m.mult, constraint=m.constraint)
    if cls == "Dropout":
        return U.dropout(x, m.p, m.training)
    if cls == "Linear":
        return U.linear(x, m.weight, m.bias, m.constraint)
    if cls == "LinearReadout":
        return U.linear_readout(x, m.weight, m.bias, m.constraint)
    if cls == "Conv1d":
        pad = m.padding if isinstance(m.padding, int) else m.padding[0]
        if m.padding_mode != "zeros":
            x = torch.nn.functional.pad(x, (pad, pad), mode=m.padding_mode)
            pad = 0
        return U.conv1d(x, m.weight, m.bias, m.stride if isinstance(m.stride, int) else m.stride[0], pad,
                        m.dilation if isinstance(m.dilation, int) else m.dilation[0], m.groups, constraint=m.constraint)
    if cls == "LayerNorm":
        return U.layer_norm(x, tuple(m.normalized_shape), m.weight, m.bias, m.eps)
    if cls == "RMSNorm":
        return U.rms_norm(x, tuple(m.normalized_shape), m.weight, m.eps)
    if cls == "Embedding":
        return U.embedding(x, m.weight, m.padding_idx, m.max_norm, m.norm_type)
    if cls == "CrossEntropyLoss":
        return U.cross_entropy(x, args[1], ignore_index=m.ignore_index, reduction=m.reduction, mult=m.mult)
    if cls == "MLP":
        a = U.linear(x, m.linear_1.weight, None, None)
        g = U.linear(x, m.linear_gate.weight, None, None)
        return U.linear(U.silu_glu(a, g), m.linear_2.weight, None, None)
    if cls == "MHSA":
        return _mhsa(m, x, U, einops, {"heads": opts["heads"], "is_causal": opts["is_causal"], "dropout_p": opts.get("dropout_p", 0.0), "mult": opts.get("mult", 1.0)})
    if cls == "TransformerLayer":
        return _tlayer(m, x, U, einops, {"heads": opts["heads"], "is_causal": opts["is_causal"], "dropout_p": opts.get("dropout_p", 0.0), "mult": 1.0,
                                         "mhsa_tau": opts["mhsa_tau"], "mlp_tau": opts["mlp_tau"]})
    if cls == "TransformerDecoder":
        h = U.embedding(x, m.embedding.weight)
        fn = _residual_fn(opts.get("residual_scaling"))
        n = opts["layers"]
        if len(m.layers) != n:
            raise AssertionError(f"decoder built {len(m.layers)} layers for layers={n}")
        for i, layer in enumerate(m.layers):
            h = _tlayer(layer, h, U, einops, {"heads": opts["heads"], "is_causal": True, "dropout_p": opts.get("dropout_p", 0.0), "mult": 1.0,
                                              "mhsa_tau": fn(2 * i, 2 * n), "mlp_tau": fn(2 * i + 1, 2 * n)})
        h = U.rms_norm(h, tuple(m.final_norm.normalized_shape), m.final_norm.weight, m.final_norm.eps)
        return U.linear_readout(h, m.projection.weight, None, None)
    raise AssertionError(cls)


def _mhsa(m, x, U, einops, hp):
    qkv = U.linear(x, m.linear_qkv.weight, None, "to_output_scale")
    q, k, v = einops.rearrange(qkv, "b s (z h d) -> z b h s d", h=hp["heads"], z=3)
    o = U.scaled_dot_product_attention(q, k, v, dropout_p=hp["dropout_p"], is_causal=hp["is_causal"], mult=hp["mult"])
    o = einops.rearrange(o, "b h s d -> b s (h d)")
    return U.linear(o, m.linear_o.weight, None, "to_output_scale")


def _tlayer(m, x, U, einops, hp):
    r, s = U.residual_split(x, tau=hp["mhsa_tau"])
    r = U.rms_norm(r, tuple(m.mhsa_norm.normalized_shape), None, m.mhsa_norm.eps)
    r = _mhsa(m.mhsa, r, U, einops, hp)
    r = U.dropout(r, hp["dropout_p"], m.training)
    x = U.residual_add(r, s, tau=hp["mhsa_tau"])
    r, s = U.residual_split(x, tau=hp["mlp_tau"])
    r = U.rms_norm(r, tuple(m.mlp_norm.normalized_shape), None, m.mlp_norm.eps)
    a = U.linear(r, m.mlp.linear_1.weight, None, None)
    g = U.linear(r, m.mlp.linear_gate.weight, None, None)
    r = U.linear(U.silu_glu(a, g), m.mlp.linear_2.weight, None, None)
    r = U.dropout(r, hp["dropout_p"], m.training)
    return U.residual_add(r, s, tau=hp["mlp_tau"])


def make_twin(cls: str, opts: Dict[str, Any], m, torch):
    """Same-named torch.nn module with the shared options and the same parameter tensors; returns (twin, ref(x))."""
    nn = torch.nn
    o = opts
    if cls == "GELU":
        t = nn.GELU(approximate=o["approximate"])
        return t, lambda a: t(a[0] * o["mult"]) / o["mult"]
    if cls == "SiLU":
        t = nn.SiLU()
        return t, lambda a: t(a[0] * o["mult"]) / o["mult"]
    if cls == "Softmax":
        t = nn.Softmax(dim=o["dim"])
        return t, lambda a: t(a[0] * o["mult"])
    if cls == "Dropout":
        t = nn.Dropout(o["p"])
    elif cls in ("Linear", "LinearReadout"):
        t = nn.Linear(o["in_features"], o["out_features"], bias=o["bias"], dtype=torch.float64)
    elif cls == "Conv1d":
        t = nn.Conv1d(o["in_channels"], o["out_channels"], o["kernel_size"], o["stride"], o["padding"], o["dilation"], o["groups"], o["bias"],
                      o["padding_mode"], dtype=torch.float64)
    elif cls == "LayerNorm":
        t = nn.LayerNorm(o["normalized_shape"], eps=o["eps"], elementwise_affine=o["elementwise_affine"], bias=o["bias"], dtype=torch.float64)
    elif cls == "RMSNorm":
        ns = tuple(o["normalized_shape"]) if isinstance(o["normalized_shape"], list) else o["normalized_shape"]
        t = nn.RMSNorm(ns, eps=o["eps"], elementwise_affine=o["elementwise_affine"], dtype=torch.float64)
    elif cls == "Embedding":
        t = nn.Embedding(o["num_embeddings"], o["embedding_dim"], padding_idx=o["padding_idx"], max_norm=o["max_norm"], norm_type=o["norm_type"],
                         dtype=torch.float64)
    elif cls == "CrossEntropyLoss":
        t = nn.CrossEntropyLoss(ignore_index=o["ignore_index"], reduction=o["reduction"])
        return t, lambda a: t(a[0] * o["mult"], a[1])
    else:
        return None, None
    t.train(m.training)
    sd = {k: v.detach().clone() for k, v in m.state_dict().items()}
    t.load_state_dict(sd)
    return t, lambda a: t(*a)


def grads_of(mod, out, up, inputs, torch):
    params = [p for p in mod.parameters() if p.requires_grad] if mod is not None else []
    leaves = [x for x in inputs if x.is_floating_point()] + params
    if not leaves or not out.requires_grad:
        return []
    g = torch.autograd.grad(out, leaves, up, allow_unused=True)
    return [torch.zeros_like(l) if gi is None else gi for gi, l in zip(g, leaves)]


def run_case(case: Dict[str, Any], ctx) -> None:
    ctx.count("evaluations")
    if case["kind"] == "init":
        return run_init(case, ctx)
    if case["kind"] == "depth":
        return run_depth(case, ctx)
    import torch
    import unit_scaling as uu
    import unit_scaling.functional as U
    from ..instruments import bits_equal, fit_scalar

    cls, opts = case["cls"], case["opts"]
    key = f"C08:{cls}"
    reject = opts.get("__reject__", False)
    torch.manual_seed(case["seed"])
    try:
        m = build(cls, opts, uu, torch)
    except Exception as e:
        if reject:
            ctx.count("reject:constructor-raised")
            ctx.nontrivial(f"{cls}|reject|{sorted(k for k in opts if not k.startswith('__'))}")
            return
        ctx.violation(f"{key}:valid-options-rejected:{exc_key(e)}", repr(e), opts=opts)
        return
    m.train(case["training"])
    gen = torch.Generator().manual_seed(case["seed"])
    args = make_input(cls, opts, case["lead"], gen, torch, m)
    run_dtype = {"float64": torch.float64, "float32": torch.float32, "bfloat16": torch.bfloat16}[case.get("dtype", "float64")]
    if run_dtype != torch.float64 and not reject:
        # module vs functional form must also be bit-identical in the other dtypes (conversion after construction: .to())
        try:
            m = m.to(run_dtype)
            args = tuple(a.to(run_dtype) if a.is_floating_point() else a for a in args)
        except Exception as e:
            ctx.violation(f"{key}:to-dtype-raises:{exc_key(e)}", repr(e), opts=opts)
            return

    def fresh_args():
        return tuple(a.detach().clone().requires_grad_(True) if a.is_floating_point() else a.clone() for a in args)

    if reject:
        # accepted at construction although unsupported: it must then at least be honoured; a failure in forward() is a late rejection
        bad_opt = sorted(k for k in opts if not k.startswith("__") and k in ("inplace", "padding", "scale_grad_by_freq", "sparse", "label_smoothing", "weight",
                                                                             "reduction", "size_average") or k == opts.get("__tuple_opt__"))
        if opts.get("__tuple_opt__"):
            try:
                a1 = fresh_args()
                y_t = m(*a1)
            except Exception as e:
                ctx.violation(f"{key}:late-rejection:{opts['__tuple_opt__']}-as-1-tuple", f"accepted at construction, fails only in forward(): {e!r}", opts=opts)
                return
            o2 = {k: (v[0] if k == opts["__tuple_opt__"] else v) for k, v in opts.items() if not k.startswith("__")}
            m2 = build(cls, o2, uu, torch)
            m2.load_state_dict(m.state_dict())
            m2.train(case["training"])
            y_i = m2(*fresh_args())
            ctx.count("reject:1-tuple-honoured")
            if tuple(y_t.shape) != tuple(y_i.shape) or not bits_equal(y_t.detach(), y_i.detach()):
                ctx.violation(f"{key}:1-tuple-option-computes-something-else:{opts['__tuple_opt__']}", "accepted, but differs from the same module built with the int", opts=opts)
            return
        try:
            a1 = fresh_args()
            m(*a1)
            ctx.violation(f"{key}:unsupported-option-accepted:{'+'.join(bad_opt)}", "constructor and forward() both accepted an option the library documents as unsupported",
                          opts=opts)
        except Exception as e:
            ctx.violation(f"{key}:late-rejection:{'+'.join(bad_opt)}", f"accepted at construction, fails only in forward(): {e!r}", opts=opts)
        return
    seed = case["seed"]
    # ---- (i) module vs the harness's functional form: bit-identical ---------------------------------
    try:
        a1 = fresh_args()
        torch.manual_seed(seed)
        y1 = m(*a1)
    except Exception as e:
        ctx.violation(f"{key}:forward-raises:{exc_key(e)}", repr(e), opts=opts, training=case["training"])
        return
    a2 = fresh_args()
    torch.manual_seed(seed)
    try:
        y2 = functional_call(cls, m, a2, U, torch, opts)
    except AssertionError as e:
        ctx.violation(f"{key}:constructor-option-not-honoured", str(e), opts=opts)
        return
    ctx.count("functional:bit-compared")
    up = torch.randn(y1.shape, generator=torch.Generator().manual_seed(seed + 1), dtype=y1.dtype)
    default_opts = all(v == d for v, d in _defaults(cls, opts))
    if tuple(y1.shape) != tuple(y2.shape) or not bits_equal(y1.detach(), y2.detach()):
        which = _blame(cls, opts)
        ctx.violation(f"{key}:module-differs-from-functional-form:{which}", f"module output {tuple(y1.shape)} is not the functional-form output {tuple(y2.shape)} "
                      f"on the module's own parameters/options", opts=opts, training=case["training"])
    else:
        g1 = grads_of(m, y1, up, a1, torch)
        g2 = grads_of(m, y2, up, a2, torch)
        for i, (x1, x2) in enumerate(zip(g1, g2)):
            if not bits_equal(x1, x2):
                which = _blame(cls, opts)
                ctx.violation(f"{key}:module-gradient-differs-from-functional-form:{which}", f"gradient #{i} differs (option not honoured in the backward pass)", opts=opts)
                break
    # ---- the module as it is used for evaluation: under torch.no_grad() / inference_mode it still IS its functional form ----
    if seed % 3 == 0:
        mode = torch.no_grad if seed % 2 else torch.inference_mode
        try:
            with mode():
                torch.manual_seed(seed)
                y1n = m(*[a.detach().clone() for a in args])
                torch.manual_seed(seed)
                y2n = functional_call(cls, m, [a.detach().clone() for a in args], U, torch, opts)
            ctx.count("mode:" + mode.__name__ + "-compared")
            if tuple(y1n.shape) != tuple(y2n.shape) or not bits_equal(y1n, y2n):
                ctx.violation(f"{key}:module-differs-from-functional-form-under-{mode.__name__}:{_blame(cls, opts)}",
                              "module output is not the functional-form output when autograd is off", opts=opts, training=case["training"])
        except AssertionError:
            pass
        except Exception as e:
            ctx.violation(f"{key}:forward-raises-under-{mode.__name__}:{exc_key(e)}", repr(e), opts=opts)
    # ---- no hidden state: toggling train/eval and calling again reproduces the first call bit for bit -------------
    try:
        m.train(not case["training"])
        a3 = fresh_args()
        torch.manual_seed(seed + 3)
        m(*a3)
        m.train(case["training"])
        a4 = fresh_args()
        torch.manual_seed(seed)
        y4 = m(*a4)
        ctx.count("history:mode-toggle-recompared")
        if not bits_equal(y4.detach(), y1.detach()):
            ctx.violation(f"{key}:result-depends-on-earlier-calls", "same module, same mode, same inputs and RNG state after a train/eval round trip: different output", opts=opts)
    except Exception as e:
        ctx.violation(f"{key}:forward-raises:{exc_key(e)}", repr(e), opts=opts, training=not case["training"])
        return
    # ---- (ii) module vs torch.nn twin: scalar fits on two draws ------------------------------------
    twin, ref = make_twin(cls, opts, m, torch)
    if run_dtype != torch.float64:
        twin = None  # the twin comparison (1e-10 fits) is a float64 oracle
    if twin is not None:
        scal = []
        for draw in range(2):
            g2_ = torch.Generator().manual_seed(seed + 100 + draw)
            argsd = make_input(cls, opts, case["lead"], g2_, torch, m)
            au = tuple(a.detach().clone().requires_grad_(True) if a.is_floating_point() else a.clone() for a in argsd)
            ar = tuple(a.detach().clone().requires_grad_(True) if a.is_floating_point() else a.clone() for a in argsd)
            torch.manual_seed(seed)
            try:
                yu = m(*au)
            except Exception as e:
                ctx.violation(f"{key}:forward-raises:{exc_key(e)}", repr(e), opts=opts)
                return
            torch.manual_seed(seed)
            try:
                yr = ref(ar)
            except Exception as e:
                ctx.skip("twin raises")
                return
            if tuple(yu.shape) != tuple(yr.shape):
                ctx.violation(f"{key}:output-shape-differs-from-torch-twin:{_blame(cls, opts)}", f"{tuple(yu.shape)} vs torch.nn.{cls} {tuple(yr.shape)}", opts=opts)
                return
            if not bool(torch.isfinite(yr).all()):
                ctx.skip("twin non-finite")
                return
            s, res, _ = fit_scalar(yu, yr)
            ctx.count("twin:fitted")
            if s is None:
                continue
            if res > 1e-10 or not s > 0:
                ctx.violation(f"{key}:not-a-scalar-multiple-of-torch-twin:{_blame(cls, opts)}", f"residual {res:.2e}, s={s!r}", opts=opts, training=case["training"])
                return
            scal.append(s)
            # gradients: direction equal to the twin's per leaf
            upd = torch.randn(yu.shape, generator=torch.Generator().manual_seed(seed + 7), dtype=yu.dtype)
            gu = grads_of(m, yu, upd, au, torch)
            if cls == "CrossEntropyLoss" and opts["reduction"] == "mean":
                yr = torch.nn.functional.cross_entropy(ar[0] * opts["mult"], ar[1], ignore_index=opts["ignore_index"], reduction="sum")
            gr = grads_of(twin, yr, upd, ar, torch)
            for i, (x1, x2) in enumerate(zip(gu, gr)):
                if x1.is_sparse or x2.is_sparse:
                    continue
                b, rb, _ = fit_scalar(x1, x2)
                if b is not None and (rb > 1e-9 or not b > 0):
                    ctx.violation(f"{key}:gradient-direction-differs-from-torch-twin:{_blame(cls, opts)}", f"leaf #{i}: residual {rb:.2e}, b={b!r}", opts=opts)
                    return
        if len(scal) == 2 and not rel_close(scal[0], scal[1], 1e-11):
            ctx.violation(f"{key}:twin-scalar-depends-on-data", f"{scal}", opts=opts)
    if not default_opts:
        ctx.nontrivial(f"{cls}|{sorted((k, str(v)) for k, v in opts.items())}|{case['training']}|{case['lead']}|{case.get('dtype')}")
    else:
        ctx.count("trivial:all-default-options")


def _defaults(cls, opts):
    d = {"mult": 1.0, "constraint": "to_output_scale" if cls != "LinearReadout" else None, "approximate": "none", "bias": False if cls != "LayerNorm" else True,
         "stride": 1, "padding": 0, "dilation": 1, "groups": 1, "padding_mode": "zeros", "eps": 1e-5, "elementwise_affine": False, "padding_idx": None,
         "max_norm": None, "norm_type": 2.0, "ignore_index": -100, "reduction": "mean", "dropout_p": 0.0, "p": 0.5, "expansion_factor": 4}
    return [(v, d[k]) for k, v in opts.items() if k in d]


def _blame(cls, opts) -> str:
    """Structural discriminator for keys: which non-default options are set."""
    nd = []
    d = {"constraint": "to_output_scale" if cls != "LinearReadout" else None, "padding_mode": "zeros"}
    for k in ("constraint", "padding_mode"):
        if k in opts and opts[k] != d[k]:
            nd.append(k)
    return "+".join(nd) if nd else "default-" + "options"


def run_init(case, ctx) -> None:
    import torch
    import unit_scaling as uu
    from unit_scaling.parameter import has_parameter_data

    torch.manual_seed(case["seed"])
    w = case["which"]
    try:
        if w == "Linear":
            m = uu.Linear(128, 160, bias=True)
        elif w == "LinearReadout":
            m = uu.LinearReadout(128, 130, bias=True)
        elif w == "Conv1d":
            m = uu.Conv1d(48, 64, 6, bias=True)
        elif w == "Embedding":
            m = uu.Embedding(300, 64, padding_idx=3)
        elif w == "LayerNorm":
            m = uu.LayerNorm(64, elementwise_affine=True)
        elif w == "RMSNorm":
            m = uu.RMSNorm(64, elementwise_affine=True)
        elif w == "MLP":
            m = uu.MLP(64)
        elif w == "MHSA":
            m = uu.MHSA(96, 4, is_causal=True)
        else:
            m = uu.TransformerDecoder(hidden_size=64, vocab_size=300, layers=2, heads=4)
    except Exception as e:
        ctx.violation(f"C08:{w}:constructor-raises:{exc_key(e)}", repr(e))
        return
    expected_tag = {"Linear": {"weight": "weight", "bias": "bias"}, "LinearReadout": {"weight": "output", "bias": "bias"},
                    "Conv1d": {"weight": "weight", "bias": "bias"}, "Embedding": {"weight": "weight"},
                    "LayerNorm": {"weight": "norm", "bias": "bias"}, "RMSNorm": {"weight": "norm"}}
    for name, p in m.named_parameters():
        leaf = name.split(".")[-1]
        owner = m.get_submodule(".".join(name.split(".")[:-1])) if "." in name else m
        oc = type(owner).__name__
        ctx.count("tags:checked")
        if not has_parameter_data(p):
            ctx.violation(f"C08:{oc}:parameter-not-tagged:{leaf}", f"{name} has no u-muP tag")
            continue
        want = expected_tag.get(oc, {}).get(leaf)
        if want and p.mup_type != want:
            ctx.violation(f"C08:{oc}:wrong-tag:{leaf}", f"{name}: tag {p.mup_type!r}, the learning-rate rules expect {want!r}")
        in_depth = name.startswith("layers.") and w == "TransformerDecoder"
        want_depth = 2 if in_depth else None
        if p.mup_scaling_depth != want_depth:
            ctx.violation(f"C08:{oc}:wrong-depth:{leaf}", f"{name}: depth {p.mup_scaling_depth!r}, expected {want_depth!r}")
        n = p.numel()
        d = p.detach().double()
        if leaf == "bias":
            if bool((d != 0).any()):
                ctx.violation(f"C08:{oc}:bias-not-zero-at-construction", f"{name}")
        elif p.mup_type == "norm":
            if bool((d != 1).any()):
                ctx.violation(f"C08:{oc}:gain-not-one-at-construction", f"{name}")
        elif n >= 2**12:
            ctx.count("init:stat-tests")
            mean, var = float(d.mean()), float(d.var())
            if abs(mean) > 6 / math.sqrt(n) or abs(var - 1) > 6 * math.sqrt(2 / n):
                ctx.violation(f"C08:{oc}:weights-not-unit-variance-at-construction", f"{name}: n={n} mean={mean:.4f} var={var:.4f}")
    ctx.nontrivial(f"init|{w}|{case['i']}")


def run_depth(case, ctx) -> None:
    import torch
    import unit_scaling as uu

    rng = rng_for(case["seed"])
    n = rng.randint(1, 9)
    kinds = [rng.choice(["Linear", "MLP", "RMSNorm", "Conv1d", "LayerNorm"]) for _ in range(n)]

    def mk(k):
        return {"Linear": lambda: uu.Linear(3, 3, bias=True), "MLP": lambda: uu.MLP(4), "RMSNorm": lambda: uu.RMSNorm(3, elementwise_affine=True),
                "Conv1d": lambda: uu.Conv1d(2, 2, 2), "LayerNorm": lambda: uu.LayerNorm(3, elementwise_affine=True)}[k]()

    for cname in ("DepthSequential", "DepthSequential-OrderedDict", "DepthModuleList", "DepthModuleList-generator"):
        mods = [mk(k) for k in kinds]
        ctx.count("depth:containers-checked")
        try:
            if cname == "DepthSequential":
                c = uu.DepthSequential(*mods)
            elif cname == "DepthSequential-OrderedDict":
                from collections import OrderedDict
                c = uu.DepthSequential(OrderedDict((f"layer_{i}", md) for i, md in enumerate(mods)))  # the other documented nn.Sequential form
            elif cname == "DepthModuleList":
                c = uu.DepthModuleList(mods)
            else:
                c = uu.DepthModuleList(md for md in mods)
        except Exception as e:
            ctx.violation(f"C08:{cname}:raises:{exc_key(e)}", repr(e), kinds=kinds)
            continue
        ps = list(c.parameters())
        if any(p.mup_scaling_depth != n for p in ps):
            ctx.violation(f"C08:{cname}:depth-not-recorded-on-all-parameters", f"{[p.mup_scaling_depth for p in ps]} for a container of {n}", kinds=kinds)
        # untagged parameter must be refused
        mods = [mk(k) for k in kinds] + [torch.nn.Linear(2, 2)]
        rng.shuffle(mods)
        try:
            (uu.DepthSequential(*mods) if cname.startswith("DepthSequential") else uu.DepthModuleList(mods))
            ctx.violation(f"C08:{cname}:accepts-untagged-parameter", "a torch.nn.Linear inside the container was accepted")
        except ValueError:
            ctx.count("depth:untagged-refused")
        except Exception as e:
            ctx.violation(f"C08:{cname}:untagged-parameter-wrong-error:{type(e).__name__}", repr(e))
    ctx.nontrivial(f"depth|{n}|{kinds}")
