"""C01 - forward = PyTorch x one data-independent positive scalar (DESIGN.md section 4)."""

from __future__ import annotations

from typing import Any, Dict, List

from ..common import derive_seed, exc_key, rng_for
from ..opcheck import feature, gen_op_cases, rel_close, sig_of

PROPERTY = "C01"
LEVEL = "exploration"
RULE = ("seeded configurations of the 16 public functions (dimension sizes pairwise distinct in 3 cases of 4, two coinciding sizes in 1 of 6, a size of 1 in 1 of 12; in 30% of the cases the tensors arrive non-contiguous; dtype, hyper-"
        "parameters, constraint name); each is executed on two independent data draws against a hand-written PyTorch "
        "reference. A case is non-trivial when the reference output is not identically zero and both draws were "
        "fitted; distinct = distinct (function, constraint, dtype, shape/discrete-hyper-parameter) signatures. "
        "'reject' cases pass an argument the library documents as unsupported / does not have. conv1d hyper-parameters are given as ints or as 1-tuples; unsupported arguments are also handed over positionally. A fifth of the calls use the POSITIONAL spelling in the documented parameter order (vmon/api_orders.py); the two draws of a configuration may differ in data magnitude (norms 1e-4..300, elementwise 1e-2..50; low-precision references must agree with their float64 evaluation); cross_entropy also with class-probability targets; a third of the cases repeat the call under torch.no_grad().")
ASSUMPTIONS = ["PyTorch reference ops and autograd are correct", "float64 summation noise < 1e-10 relative",
               "CPU kernels are deterministic with one thread"]
IMPORTS = ["unit_scaling.functional", "unit_scaling.scale", "unit_scaling.core.functional", "unit_scaling.docs"]
REQUIRED_MONITORS = ["fit:forward", "spy:scale-calls", "sanitizer:inputs-checked", "reject:evaluated"]
REQUIRED_REACH = {
    "functional.py": ["gelu", "silu", "silu_glu", "softmax", "dropout", "matmul", "linear", "linear_readout",
                      "conv1d", "layer_norm", "rms_norm", "add", "embedding", "scaled_dot_product_attention",
                      "cross_entropy", "mse_loss", "_get_broadcast_sizes"],
    "scale.py": ["_ScaledGrad.forward", "scale_fwd", "scale_bwd"],
    "core/functional.py": ["scale_elementwise", "scale_elementwise.<locals>.scaled_f"],
    "docs.py": ["_validate.<locals>._validate_args_supported"],
}
MIN_NONTRIVIAL = {"quick": 300, "thorough": 40000}

REJECTS = [
    ("silu", "inplace"), ("dropout", "inplace"), ("add", "alpha_int"), ("add", "alpha_float"),
    ("embedding", "scale_grad_by_freq"), ("embedding", "sparse"),
    ("cross_entropy", "weight"), ("cross_entropy", "size_average"), ("cross_entropy", "reduce"),
    ("cross_entropy", "label_smoothing"), ("cross_entropy", "reduction_none"),
    ("mse_loss", "size_average"), ("mse_loss", "reduce"), ("mse_loss", "reduction_none"),
    ("softmax", "_stacklevel"), ("softmax", "dtype"), ("conv1d", "padding_same"),
    ("scaled_dot_product_attention", "scale"), ("matmul", "out"), ("gelu", "approximate_tanh"),
    ("embedding", "norm_type"), ("layer_norm", "eps"), ("dropout", "training_false"),
]


def gen_cases(tier: str, seed: int) -> List[Dict[str, Any]]:
    cases = gen_op_cases(PROPERTY, tier, seed, 1600, 160000)
    reps = 2 if tier == "quick" else 20
    for r in range(reps):
        for j, (fn, what) in enumerate(REJECTS):
            cases.append({"kind": "reject", "fn": fn, "what": what,
                          "seed": derive_seed(seed, PROPERTY, "rej", r, j) % (2**31)})
            if fn in ("cross_entropy", "mse_loss") or (fn, what) == ("silu", "inplace"):
                # the same unsupported argument handed over POSITIONALLY (all arguments up to it given by position)
                cases.append(dict(cases[-1], form="positional"))
    return cases


def run_case(case: Dict[str, Any], ctx) -> None:
    ctx.count("evaluations")
    if case["kind"] == "reject":
        return run_reject(case, ctx)
    import torch
    import unit_scaling.functional as U
    from ..instruments import DTYPES, TOL
    from ..optable import OPS, run_fit

    op = OPS[case["fn"]]
    cfg, constraint = case["cfg"], case["constraint"]
    dtype = DTYPES[case["dtype"]]
    tol = TOL[dtype]
    sA, sB, uA, uB = case["seeds"]
    feat = feature(case["fn"], cfg)
    base = f"C01:{case['fn']}"

    def key(clause: str) -> str:
        return f"{base}:{clause}" + (f":{feat}" if feat else "")

    A = run_fit(op, U, cfg, constraint, dtype, sA, uA, want_grads=False)
    if A.ref_exc is not None:
        ctx.skip(f"reference raises for {case['dtype']}" if dtype != torch.float64 else "reference raises")
        return
    if A.u_exc is not None:
        ctx.violation(key("raises:" + exc_key(A.u_exc)), f"U.{case['fn']} raised {A.u_exc!r} where the PyTorch op runs",
                      cfg=cfg, constraint=constraint, dtype=case["dtype"])
        return
    B = run_fit(op, U, cfg, constraint, dtype, sB, uB, want_grads=False)
    if B.u_exc is not None or B.ref_exc is not None:
        ctx.skip("second draw raised")
        return
    ctx.count("spy:scale-calls", len(A.scale_trace))
    ctx.count("sanitizer:inputs-checked", len(A.inputs_u))
    if A.ref_nonfinite or B.ref_nonfinite:
        ctx.skip("reference non-finite")
        return
    if cfg.get("_mags") and dtype in (torch.bfloat16, torch.float16):
        # large / tiny data in low precision: PyTorch's OWN op can be wrong there (float16 F.rms_norm over two normalised dims
        # returns all zeros for |x| ~ 300 - its square overflows). The reference must first agree with its float64 evaluation.
        from ..optable import reference_noise
        try:
            worst = max(reference_noise(op, cfg, dtype, sd, uA).get("__out__", 0.0) for sd in (sA, sB))
        except Exception:
            worst = 1.0
        if not worst <= 0.05:
            ctx.count("excluded:pytorch-low-precision-reference-off-its-float64-value")
            ctx.skip("PyTorch's own low-precision result is off its float64 value")
            return
    for fr, tag in ((A, "A"), (B, "B")):
        if not fr.shape_ok:
            ctx.violation(key("shape"), f"output shape {tuple(fr.out_u.shape)} != reference {tuple(fr.out_r.shape)}", cfg=cfg)
            return
        if not fr.dtype_ok:
            ctx.violation(key("dtype"), f"output dtype {fr.out_u.dtype} != reference {fr.out_r.dtype}", cfg=cfg)
        if fr.mutated:
            ctx.violation(key("input-modified"), f"input tensor modified: {fr.mutated}", cfg=cfg)
        if fr.scale_problems:
            ctx.violation(key("scale-primitive:" + fr.scale_problems[0]), str(fr.scale_problems[:3]), cfg=cfg)
        if fr.u_nonfinite and fr.out_r.numel() and float(fr.out_r.detach().abs().max()) > torch.finfo(fr.out_r.dtype).max / 16:
            ctx.count("excluded:reference-output-near-the-overflow-threshold")
            ctx.skip("reference output near the dtype's overflow threshold")
            return
        if fr.u_nonfinite:
            ctx.violation(key("nonfinite"), "library output non-finite where the reference is finite", cfg=cfg)
            return
    if A.scale_trace != B.scale_trace:
        ctx.violation(key("scale-factors-differ-between-data-draws"),
                      f"scale factors changed with the data: {A.scale_trace} vs {B.scale_trace}", cfg=cfg, constraint=constraint)
    if A.s_out is None or B.s_out is None:
        # identically-zero reference: the library output must be identically zero too
        for fr in (A, B):
            if fr.s_out is None and fr.res_out != 0.0:
                ctx.violation(key("nonzero-where-reference-zero"), f"max|y|={fr.res_out}", cfg=cfg)
        ctx.count("trivial:zero-reference")
        return
    ctx.count("fit:forward", 2)
    ctx.nontrivial(sig_of(case))
    lowp = dtype in (torch.bfloat16, torch.float16) or (dtype == torch.float32 and bool(cfg.get("_mags")))
    _noise: Dict[str, float] = {}

    def noise_of(tag: str) -> float:
        """relative error PyTorch's own low-precision op makes on this very draw (0 for float32 / float64)"""
        if not lowp:
            return 0.0
        if tag not in _noise:
            from ..optable import reference_noise
            try:
                _noise[tag] = reference_noise(op, cfg, dtype, sA if tag == "A" else sB, uA).get("__out__", 0.0)
            except Exception:
                _noise[tag] = 0.0
        return _noise[tag]

    for fr, tag in ((A, "A"), (B, "B")):
        if fr.res_out > tol and lowp:
            noise = noise_of(tag)
            if fr.res_out <= 8 * noise + tol:
                ctx.count("lowp:within-noise-of-the-reference-op")
                continue
        if fr.res_out > tol:
            ctx.violation(key("not-a-scalar-multiple"),
                          f"draw {tag}: residual {fr.res_out:.3e} > {tol:.1e} after fitting s={fr.s_out!r}",
                          cfg=cfg, constraint=constraint, dtype=case["dtype"])
            return
        if not (fr.s_out > 0):
            ctx.violation(key("scalar-not-positive"), f"s={fr.s_out!r}", cfg=cfg, constraint=constraint)
            return
    stol = 1e-11 if dtype == torch.float64 else 2 * tol  # fitted scalars of tiny low-precision tensors are noisy
    if lowp and not rel_close(A.s_out, B.s_out, stol) and rel_close(A.s_out, B.s_out, stol + 8 * (noise_of("A") + noise_of("B"))):
        ctx.count("lowp:scalar-within-noise-of-the-reference-op")
    elif not rel_close(A.s_out, B.s_out, stol):
        ctx.violation(key("scalar-depends-on-data"), f"s_A={A.s_out!r} s_B={B.s_out!r}", cfg=cfg, constraint=constraint,
                      dtype=case["dtype"])
    if op.exact_one and not rel_close(A.s_out, 1.0, stol + 8 * noise_of("A")):
        ctx.violation(key("scalar-not-one"), f"s={A.s_out!r} for a loss / norm / embedding", cfg=cfg, dtype=case["dtype"])
    if dtype != torch.float64:
        R = run_fit(op, U, cfg, constraint, torch.float64, sA, uA, want_grads=False)
        if R.u_exc is None and R.ref_exc is None and R.s_out is not None and not rel_close(A.s_out, R.s_out, tol + 8 * noise_of("A")):
            ctx.violation(key("scalar-differs-from-float64"), f"{case['dtype']}: s={A.s_out!r}, float64: s={R.s_out!r}", cfg=cfg)
    # the same call with autograd off (evaluation): same values, to rounding of PyTorch's own kernel choice
    if sA % 3 == 0:
        try:
            with torch.no_grad():  # (inference_mode tensors have no version counter for the input sanitizer to read)
                Ng = run_fit(op, U, cfg, constraint, dtype, sA, uA, want_grads=False)
            ctx.count("mode:autograd-off-compared")
            if Ng.u_exc is not None:
                ctx.violation(key("raises-with-autograd-off:" + exc_key(Ng.u_exc)), repr(Ng.u_exc), cfg=cfg)
            elif Ng.out_u is not None and A.out_u is not None:
                sc_ = max(float(A.out_u.detach().abs().max()), 1e-300) if A.out_u.numel() else 1.0
                if tuple(Ng.out_u.shape) != tuple(A.out_u.shape) or (A.out_u.numel() and float((Ng.out_u.double() - A.out_u.detach().double()).abs().max()) > 8 * tol * sc_):
                    ctx.violation(key("value-depends-on-grad-mode"), "forward value under no_grad / inference_mode differs from the value with autograd recording", cfg=cfg,
                                  dtype=case["dtype"])
        except Exception as e:
            ctx.violation(key("raises-with-autograd-off:" + exc_key(e)), repr(e), cfg=cfg)
    # repeated call is bit-identical (RNG re-seeded identically for the random ops)
    A2 = run_fit(op, U, cfg, constraint, dtype, sA, uA, want_grads=False)
    ctx.count("repeat:compared")
    if A2.out_u is None or not torch.equal(torch.nan_to_num(A2.out_u), torch.nan_to_num(A.out_u)):
        ctx.violation(key("repeat-call-differs"), "same inputs, same RNG state, different output", cfg=cfg)


# ------------------------------------------------------------------------ rejection
def run_reject(case: Dict[str, Any], ctx) -> None:
    import torch
    import torch.nn.functional as F
    import unit_scaling.functional as U
    from ..instruments import fit_scalar

    g = torch.Generator().manual_seed(case["seed"])
    rn = lambda *s: torch.randn(*s, generator=g, dtype=torch.float64)
    fn, what = case["fn"], case["what"]
    x = rn(5, 7)
    expect_honoured = False
    if (fn, what) == ("silu", "inplace"):
        u = (lambda: U.silu(x.clone(), inplace=True)) if case.get("form") != "positional" else _positional(U.silu, (x.clone(),), {"inplace": True})
        w, wo = F.silu(x.clone(), inplace=True), F.silu(x)
    elif (fn, what) == ("dropout", "inplace"):
        def u():
            torch.manual_seed(3)
            return U.dropout(x.clone(), 0.5, True, True)
        torch.manual_seed(3); w = F.dropout(x.clone(), 0.5, True, True)
        torch.manual_seed(3); wo = F.dropout(x, 0.5, True)
    elif (fn, what) == ("dropout", "training_false"):
        expect_honoured = True
        u = lambda: U.dropout(x, 0.5, False)
        w = F.dropout(x, 0.5, False)
        torch.manual_seed(3); wo = F.dropout(x, 0.5, True)
    elif fn == "add":
        y = rn(5, 7)
        alpha = 2 if what == "alpha_int" else 0.5
        u = lambda: U.add(x, y, alpha=alpha)
        w, wo = torch.add(x, y, alpha=alpha), torch.add(x, y)
    elif fn == "embedding":
        W = rn(11, 4)
        idx = torch.randint(0, 11, (6, 3), generator=g)
        idx[0] = 2  # repeated index so that scale_grad_by_freq matters
        if what == "norm_type":
            expect_honoured = True
            u = lambda: U.embedding(idx, W.clone(), max_norm=0.5, norm_type=1.0)
            w, wo = F.embedding(idx, W.clone(), max_norm=0.5, norm_type=1.0), F.embedding(idx, W.clone(), max_norm=0.5)
        else:
            return _reject_grad(case, ctx, idx, W)
    elif fn == "cross_entropy":
        logits, tgt = rn(6, 5), torch.randint(0, 5, (6,), generator=g)
        cw = torch.rand(5, generator=g, dtype=torch.float64) + 0.5
        kw = {"weight": {"weight": cw}, "size_average": {"size_average": False}, "reduce": {"reduce": False},
              "label_smoothing": {"label_smoothing": 0.1}, "reduction_none": {"reduction": "none"}}[what]
        u = (lambda: U.cross_entropy(logits, tgt, **kw)) if case.get("form") != "positional" else _positional(U.cross_entropy, (logits, tgt), kw)
        import warnings
        with warnings.catch_warnings():
            warnings.simplefilter("ignore")
            w, wo = F.cross_entropy(logits, tgt, **kw), F.cross_entropy(logits, tgt)
    elif fn == "mse_loss":
        a, b = rn(4, 6), rn(4, 6)
        kw = {"size_average": {"size_average": False}, "reduce": {"reduce": False},
              "reduction_none": {"reduction": "none"}}[what]
        u = (lambda: U.mse_loss(a, b, **kw)) if case.get("form") != "positional" else _positional(U.mse_loss, (a, b), kw)
        import warnings
        with warnings.catch_warnings():
            warnings.simplefilter("ignore")
            w, wo = F.mse_loss(a, b, **kw), F.mse_loss(a, b)
    elif (fn, what) == ("softmax", "_stacklevel"):
        # _stacklevel only moves a deprecation warning in PyTorch: honouring it (same values) and rejecting it are both fine
        u = lambda: U.softmax(x, dim=-1, _stacklevel=5, constraint=None)
        w = wo = F.softmax(x, dim=-1, _stacklevel=5)
    elif (fn, what) == ("softmax", "dtype"):
        expect_honoured = True
        x32 = x.float()
        u = lambda: U.softmax(x32, dim=-1, dtype=torch.float64, constraint=None)
        w, wo = F.softmax(x32, dim=-1, dtype=torch.float64), F.softmax(x32, dim=-1)
    elif (fn, what) == ("conv1d", "padding_same"):
        inp, wt = rn(2, 3, 9), rn(4, 3, 3)
        u = lambda: U.conv1d(inp, wt, padding="same")
        w, wo = F.conv1d(inp, wt, padding="same"), F.conv1d(inp, wt)
    elif (fn, what) == ("scaled_dot_product_attention", "scale"):
        q, k, v = rn(3, 5, 4), rn(3, 5, 4), rn(3, 5, 4)
        u = lambda: U.scaled_dot_product_attention(q, k, v, scale=0.3)
        w = wo = None
    elif (fn, what) == ("matmul", "out"):
        a, b = rn(3, 4), rn(4, 5)
        u = lambda: U.matmul(a, b, out=torch.empty(3, 5, dtype=torch.float64))
        w = wo = None
    elif (fn, what) == ("gelu", "approximate_tanh"):
        expect_honoured = True
        u = lambda: U.gelu(x, approximate="tanh")
        w, wo = F.gelu(x, approximate="tanh"), F.gelu(x)
    elif (fn, what) == ("layer_norm", "eps"):
        expect_honoured = True
        u = lambda: U.layer_norm(x, (7,), eps=0.5)
        w, wo = F.layer_norm(x, (7,), eps=0.5), F.layer_norm(x, (7,))
    else:
        raise AssertionError((fn, what))
    ctx.count("reject:evaluated")
    if case.get("form") == "positional":
        ctx.count("reject:positional-form")
    ctx.nontrivial(f"reject|{fn}|{what}|{case.get('form', 'keyword')}")
    key = f"C01:{fn}:argument-{what}" + (":given-positionally" if case.get("form") == "positional" else "")
    try:
        y = u()
    except Exception as e:
        ctx.count("reject:raised")
        if expect_honoured:
            ctx.violation(key + ":supported-argument-raises", f"{e!r}")
        return
    if w is None:
        ctx.violation(key + ":accepted-silently", "argument absent from / unsupported by the library was accepted")
        return
    if tuple(y.shape) != tuple(w.shape):
        ctx.violation(key + ":silently-ignored", f"shape {tuple(y.shape)} vs reference-with-argument {tuple(w.shape)}")
        return
    s, res, _ = fit_scalar(y, w)
    is_loss = fn in ("cross_entropy", "mse_loss")
    if s is not None and res <= 1e-10 and s > 0 and (not is_loss or abs(s - 1.0) <= 1e-10):
        ctx.count("reject:honoured")
        return
    if is_loss and s is not None and res <= 1e-10 and s > 0:
        # accepted, forwarded to PyTorch, but the reported loss is a multiple of PyTorch's: for losses the scalar must be exactly 1
        ctx.violation(key + ":accepted-but-loss-not-equal-to-pytorch", f"U / F = {s!r} with the argument given", what=what)
        return
    s2, res2, _ = fit_scalar(y, wo) if tuple(y.shape) == tuple(wo.shape) else (None, 1.0, 0)
    if s2 is not None and res2 <= 1e-10:
        ctx.violation(key + ":silently-ignored", f"result is a multiple of the reference WITHOUT the argument (res {res2:.1e}); "
                      f"residual against the reference with it: {res:.2e}")
    else:
        ctx.violation(key + ":wrong-result", f"neither honoured (res {res:.2e}) nor rejected")


def _positional(f, args, kw):
    """the call f(*args, **kw) rewritten with every argument up to the last keyword one passed by position"""
    import inspect

    sig = inspect.signature(f)
    ba = sig.bind(*args, **kw)
    ba.apply_defaults()
    names = list(sig.parameters)
    last = max(names.index(k) for k in kw)
    pos = [ba.arguments[n] for n in names[: last + 1]]
    return lambda: f(*pos)


def _reject_grad(case, ctx, idx, W) -> None:
    """embedding(scale_grad_by_freq / sparse): only the gradient distinguishes them."""
    import torch
    import torch.nn.functional as F
    import unit_scaling.functional as U
    from ..instruments import fit_scalar

    what = case["what"]
    ctx.count("reject:evaluated")
    ctx.nontrivial(f"reject|embedding|{what}")
    key = f"C01:embedding:argument-{what}"
    kw = {what: True}
    Wu = W.clone().requires_grad_(True)
    try:
        y = U.embedding(idx, Wu, **kw)
    except Exception:
        ctx.count("reject:raised")
        return
    y.sum().backward()
    Wr = W.clone().requires_grad_(True)
    F.embedding(idx, Wr, **kw).sum().backward()
    gu = Wu.grad.to_dense() if Wu.grad.is_sparse else Wu.grad
    gr = Wr.grad.to_dense() if Wr.grad.is_sparse else Wr.grad
    s, res, _ = fit_scalar(gu, gr)
    honoured = s is not None and res <= 1e-10 and (what != "sparse" or Wu.grad.is_sparse)
    if not honoured:
        ctx.violation(key + ":silently-ignored", f"accepted but gradient does not match torch with {what}=True (res {res:.2e})")
