"""C16 - unit_scale() equals the hand conversion prescribed by the User Guide."""

from __future__ import annotations

from typing import Any, Dict, List

from ..common import derive_seed, exc_key, rng_for

PROPERTY = "C16"
LEVEL = "exploration"
RULE = ("seeded programs (chains / DAGs of 1-16 ops over the mapped and unmapped vocabulary, tensor+tensor / tensor+scalar / in-place "
        "adds, 0-4 well-nested residual blocks whose skip tensor is an input, a residual output or a plain sum, torch.nn wrappers) are "
        "emitted as Python source, instantiated (float64), passed through the real unit_scale() (TorchDynamo path) and executed; "
        "outputs and all input/parameter gradients are compared with an independent interpreter of the DSL under the User-Guide "
        "recipe (residual analysis by networkx ancestor queries), using the returned module's parameters; the re-initialisation of "
        "Linear/Embedding weights and biases and the untouched original are checked separately; programs include gating products "
        "h*g(linear(h)) in both operand orders and PARALLEL residual branches; 'replace' cases (run FIRST in every worker, so leaked "
        "state would show in later programs) check that user "
        "replacements win. Non-trivial = program contains a mapped op or an addition; distinct = emitted source text. 'root' cases: the module handed to unit_scale() is ITSELF a torch.nn class (nn.Sequential of layers, nested Sequentials, a bare nn.Linear) compared with a hand-written recipe. The matrix product is emitted as torch.matmul(a, b) or a @ b; nn.Conv1d and non-default wrapper options (GELU tanh, Softmax dim, LayerNorm eps / no affine, Embedding padding_idx) are among the torch.nn wrappers; dimensions include square projections, batch == sequence length, a single sequence / token. A third of the cases call the converted module again under torch.no_grad(); a quarter make a rejected call first.")
ASSUMPTIONS = ["unit_scaling.functional ops are as established by C01-C06 (the reference calls them)", "programs that Dynamo splits into several graphs are excluded and counted"]
IMPORTS = ["unit_scaling.transforms", "unit_scaling.transforms._unit_scale", "unit_scaling.transforms.utils", "unit_scaling.functional"]
REQUIRED_MONITORS = ["programs:transformed", "outputs:compared", "grads:compared", "reinit:checked", "replace:checked"]
REQUIRED_REACH = {"transforms/_unit_scale.py": ["unit_scaling_backend.<locals>.inner_backend", "_unit_scale_residual", "_unconstrain_node", "_is_self_attention",
                                                "_unit_init_weights", "_zero_init_biases", "unit_scale", "_add_dependency_meta"],
                  "transforms/utils.py": ["apply_transform", "replace_node_with_function"]}
MIN_NONTRIVIAL = {"quick": 120, "thorough": 6000}
REACH = True
FORMS = ["embedding", "nn_gelu", "nn_softmax", "linear_2arg", "bias_kw", "conv1d", "nn_conv1d"]


def gen_cases(tier: str, seed: int) -> List[Dict[str, Any]]:
    n = 352 if tier == "quick" else 18000
    cases = []
    for i in range(n):
        rng = rng_for(seed, PROPERTY, "prof", i)
        cases.append({"kind": "prog", "seed": derive_seed(seed, PROPERTY, i) % (2**31),
                      "profile": {"dtype": "float64", "max_ops": rng.choice([3, 6, 10, 16]), "residual": rng.choice([0, 1, 2, 2, 3, 4]),
                                  "forms": [f for f in FORMS if rng.random() < 0.6], "loss": rng.random() < 0.3, "extras": rng.random() < 0.3}})
    reps = [{"kind": "replace", "seed": derive_seed(seed, PROPERTY, "rep", i) % (2**31)} for i in range(32 if tier == "quick" else 160)]
    # replacement cases are spread at the FRONT of the case list: every worker runs some of them before its ordinary programs,
    # so that state leaking from a user's `replace=` into later unit_scale() calls would be seen
    roots = [{"kind": "root", "seed": derive_seed(seed, PROPERTY, "root", i) % (2**31), "shape": ["seq-mlp", "seq-norm", "linear", "seq-nested", "modulelist-user"][i % 5]}
             for i in range(20 if tier == "quick" else 400)]
    return reps + roots + cases


def _named(m) -> Dict[str, Any]:
    return {k: v for k, v in m.named_parameters()}


def run_case(case: Dict[str, Any], ctx) -> None:
    import torch
    import torch._dynamo
    import torch.nn.functional as F
    import unit_scaling.functional as U
    from unit_scaling.transforms import unit_scale
    from .. import progs

    ctx.count("evaluations")
    if case["kind"] == "root":
        return run_root(case, ctx)
    rng = rng_for(case["seed"], "prog")
    replace_case = case["kind"] == "replace"
    if replace_case:
        profile = {"dtype": "float64", "max_ops": 5, "residual": 1, "forms": [], "loss": False}
        prog = progs.gen_program(rng, profile)
        # make sure a gelu is present
        B, S, D = prog["dims"]["B"], prog["dims"]["S"], prog["dims"]["D"]
        last = prog["outputs"][0]
        prog["ops"].append({"out": "v900", "op": "gelu" if case["seed"] % 2 == 0 else "custom_act", "in": [last], "kw": {}})
        prog["outputs"] = ["v900"]
    else:
        prog = progs.gen_program(rng, case["profile"])
    feats = progs.features(prog)
    m, src = progs.build_module(prog, case["seed"])
    ctx.sample({"emitted_source": src, "features": feats})
    inputs = progs.make_inputs(prog, case["seed"] + 5)
    before = {k: v.detach().clone() for k, v in m.state_dict().items()}

    def fkey(exc) -> str:
        return exc_key(exc)

    replace_kw = {}
    interp_replace = None
    if replace_case and case["seed"] % 2 == 0:
        def custom_gelu(x, approximate="none"):
            return U.gelu(x, mult=2.0, constraint=None) * 1.0
        replace_kw = {"replace": {F.gelu: custom_gelu}}
        interp_replace = {"gelu": lambda x, **kw: U.gelu(x, mult=2.0, constraint=None) * 1.0}
    elif replace_case:
        # the documented use: the model calls the user's own function, which is mapped onto a unit-scaled op
        import sys as _sys
        my_act = getattr(_sys.modules[type(m).__module__], "my_act")
        replace_kw = {"replace": {my_act: U.gelu}}
        interp_replace = {"custom_act": lambda x, **kw: U.gelu(x, **kw)}
    try:
        us = unit_scale(m, **replace_kw)
    except Exception as e:
        ctx.violation("C16:unit_scale-raises:" + fkey(e), f"unit_scale(module) raised {e!r}", source=src, features=feats)
        return
    ctx.count("programs:transformed")
    # ---- re-initialisation and non-destructiveness (parameters) ----------------------------------
    ctx.count("reinit:checked")
    after = m.state_dict()
    for k, v in before.items():
        if not torch.equal(after[k], v):
            ctx.violation("C16:original-module-modified", f"parameter {k} of the original changed", source=src)
            break
    usp = _named(us)
    mods = {md["name"]: md for md in prog["mods"]}
    for k, v in before.items():
        if k not in usp:
            ctx.violation("C16:parameter-missing-in-result", k, source=src)
            continue
        head = k.split(".")[0]
        typ = mods.get(head, {}).get("type")
        got = usp[k].detach()
        if typ in ("nn.Linear", "uu.Linear", "nn.Embedding") and k.endswith(".weight"):
            want = v / v.std()
            if not torch.allclose(got, want, rtol=1e-12, atol=0):
                ctx.violation(f"C16:weight-not-reinitialised-to-unit-variance:{typ}", f"{k}: std {float(got.std())!r}", source=src)
        elif typ in ("nn.Linear", "uu.Linear") and k.endswith(".bias"):
            if bool((got != 0).any()):
                ctx.violation(f"C16:bias-not-zeroed:{typ}", f"{k}", source=src)
        elif not torch.equal(got, v):
            ctx.violation(f"C16:unrelated-parameter-changed:{typ or 'raw-parameter'}", f"{k} differs from the original although it is not a Linear/Embedding weight or bias", source=src)
    # ---- execute through the real Dynamo path ---------------------------------------------------------
    if case["seed"] % 4 == 2:
        try:  # history: a rejected call first (wrong number of arguments, caught by the caller)
            us()
        except Exception:
            ctx.count("history:rejected-call-first")
    torch._dynamo.utils.counters.clear()
    ins_u = [t.detach().clone().requires_grad_(True) if t.is_floating_point() else t.clone() for t in inputs]
    try:
        out_u = us(*ins_u)
    except Exception as e:
        ctx.violation("C16:first-call-raises:" + fkey(e), f"unit_scale(module)(x) raised {e!r}", source=src, features=feats)
        return
    breaks = sum(torch._dynamo.utils.counters["graph_break"].values())
    if breaks:
        ctx.count("excluded:graph-break")
        ctx.skip("graph break")
        return
    outs_u = list(out_u) if isinstance(out_u, (tuple, list)) else [out_u]
    # ---- reference: the recipe, on the returned module's parameters -------------------------------
    pref = {k: v.detach().clone().requires_grad_(True) for k, v in usp.items()}
    ins_r = [t.detach().clone().requires_grad_(True) if t.is_floating_point() else t.clone() for t in inputs]
    mod_attrs = {md["name"]: {"constraint": "to_output_scale"} for md in prog["mods"] if md["type"] == "uu.Linear"}
    try:
        outs_r, _ = progs.interpret(prog, pref, ins_r, "recipe", replace=interp_replace, mod_attrs=mod_attrs)
    except Exception as e:
        ctx.count("harness_error")
        ctx.note("reference interpreter failed: " + repr(e) + "\n" + src)
        return
    ctx.count("outputs:compared", len(outs_r))
    bad_out = None
    for i, (yu, yr) in enumerate(zip(outs_u, outs_r)):
        if tuple(yu.shape) != tuple(yr.shape):
            bad_out = f"output {i}: shape {tuple(yu.shape)} vs {tuple(yr.shape)}"
            break
        scale = max(float(yr.detach().abs().max()), 1e-300)
        err = float((yu.detach() - yr.detach()).abs().max()) / scale
        if not err <= 1e-10:
            bad_out = f"output {i}: rel err {err:.3e}"
            break
    bad_grad = None
    if bad_out is None:
        g = torch.Generator().manual_seed(case["seed"] + 9)
        ups = [torch.randn(y.shape, generator=g, dtype=y.dtype) for y in outs_r]
        leaves_u = [t for t in ins_u if t.is_floating_point()] + [usp[k] for k in sorted(usp)]
        leaves_r = [t for t in ins_r if t.is_floating_point()] + [pref[k] for k in sorted(usp)]
        names = [f"input{i}" for i, t in enumerate(ins_u) if t.is_floating_point()] + sorted(usp)
        try:
            gu = torch.autograd.grad([y for y in outs_u if y.requires_grad], leaves_u, [u for y, u in zip(outs_u, ups) if y.requires_grad], allow_unused=True)
        except Exception as e:
            ctx.violation("C16:backward-raises:" + fkey(e), repr(e), source=src, features=feats)
            return
        gr = torch.autograd.grad([y for y in outs_r if y.requires_grad], leaves_r, [u for y, u in zip(outs_r, ups) if y.requires_grad], allow_unused=True)
        ctx.count("grads:compared", len(gu))
        from ..instruments import grads_differ
        bad_grad = grads_differ(list(gu), list(gr), 1e-9, names)
    if not bad_out and not bad_grad and case["seed"] % 3 == 0:
        # the converted module called as it is at evaluation time: under torch.no_grad(), inputs without requires_grad
        try:
            with torch.no_grad():
                out_n = us(*[t.detach().clone() for t in inputs])
            outs_n = list(out_n) if isinstance(out_n, (tuple, list)) else [out_n]
            ctx.count("mode:no_grad-call-compared")
            for i, (yn, yu) in enumerate(zip(outs_n, outs_u)):
                sc_ = max(float(yu.detach().abs().max()), 1e-300)
                if tuple(yn.shape) != tuple(yu.shape) or not float((yn - yu.detach()).abs().max()) / sc_ <= 1e-10:
                    ctx.violation("C16:no_grad-call-of-the-converted-module-computes-something-else", f"output {i} differs from the training-mode call", source=src,
                                  features=feats)
                    break
        except Exception as e:
            ctx.violation("C16:converted-module-raises-under-no_grad:" + fkey(e), repr(e), source=src, features=feats)
    if replace_case:
        ctx.count("replace:checked")
    if bad_out or bad_grad:
        why = explain(prog, usp, inputs, outs_u, interp_replace, mod_attrs, grads_u=(gu if bad_out is None else None), ups=(ups if bad_out is None else None))
        clause = "output" if bad_out else "gradient"
        if replace_case and why == "unexplained":
            why = "user-replacement-not-honoured"
        ctx.violation(f"C16:{clause}-differs-from-recipe:{why}", (bad_out or bad_grad) + f"; features {feats}", source=src, features=feats)
    if any(o["op"] in ("add", "iadd", "linear_f", "nn_linear", "gelu", "silu", "softmax", "sdpa", "matmul", "layer_norm", "nn_layer_norm", "conv1d", "dropout",
                       "embedding_f", "nn_embedding", "cross_entropy", "mse_loss") for o in prog["ops"]):
        ctx.nontrivial(src)


def run_root(case, ctx) -> None:
    """The module handed to unit_scale() is ITSELF a torch.nn class (nn.Sequential of layers - the most common way to write a
    small model - or a bare nn.Linear). The recipe result is written by hand: no residual additions, so every op is the
    unconstrained unit-scaled counterpart."""
    import torch
    from torch import nn
    import unit_scaling.functional as U
    from unit_scaling.transforms import unit_scale
    from ..instruments import grads_differ

    rng = rng_for(case["seed"], "root")
    torch.manual_seed(case["seed"])
    d0, d1, d2 = rng.choice([8, 12, 16]), rng.choice([6, 10, 20]), rng.choice([4, 5, 9])
    shape = case["shape"]
    if shape == "seq-mlp":
        m = nn.Sequential(nn.Linear(d0, d1), nn.GELU(), nn.Linear(d1, d2, bias=False))
        recipe = lambda p, x: U.linear(U.gelu(U.linear(x, p["0.weight"], p["0.bias"], constraint=None), constraint=None), p["2.weight"], None, constraint=None)
    elif shape == "seq-norm":
        m = nn.Sequential(nn.Linear(d0, d1), nn.LayerNorm(d1), nn.SiLU(), nn.Linear(d1, d2))
        recipe = lambda p, x: U.linear(U.silu(U.layer_norm(U.linear(x, p["0.weight"], p["0.bias"], constraint=None), (d1,), p["1.weight"], p["1.bias"]), constraint=None),
                                       p["3.weight"], p["3.bias"], constraint=None)
    elif shape == "linear":
        m = nn.Linear(d0, d2)
        recipe = lambda p, x: U.linear(x, p["weight"], p["bias"], constraint=None)
    elif shape == "seq-nested":
        m = nn.Sequential(nn.Sequential(nn.Linear(d0, d1), nn.GELU()), nn.Linear(d1, d2))
        recipe = lambda p, x: U.linear(U.gelu(U.linear(x, p["0.0.weight"], p["0.0.bias"], constraint=None), constraint=None), p["1.weight"], p["1.bias"], constraint=None)
    else:  # control: the same layers held by a user-defined module
        class Holder(nn.Module):
            def __init__(self):
                super().__init__()
                self.layers = nn.ModuleList([nn.Linear(d0, d1), nn.Linear(d1, d2)])

            def forward(self, x):
                return self.layers[1](torch.tanh(self.layers[0](x)))
        m = Holder()
        recipe = lambda p, x: U.linear(torch.tanh(U.linear(x, p["layers.0.weight"], p["layers.0.bias"], constraint=None)), p["layers.1.weight"], p["layers.1.bias"],
                                       constraint=None)
    m = m.double()
    key = "C16:root-module-is-a-torch.nn-" + ("layer" if shape == "linear" else "container" if shape != "modulelist-user" else "free-control")
    try:
        us = unit_scale(m)
        x = torch.randn(7, d0, dtype=torch.float64, generator=torch.Generator().manual_seed(case["seed"]))
        xu = x.clone().requires_grad_(True)
        yu = us(xu)
        up = torch.randn(yu.shape, dtype=torch.float64, generator=torch.Generator().manual_seed(case["seed"] + 1))
        pu = _named(us)
        gu = torch.autograd.grad(yu, [xu] + [pu[k] for k in sorted(pu)], up, allow_unused=True)
    except Exception as e:
        ctx.violation(key + ":raises:" + exc_key(e), repr(e), shape=shape)
        return
    ctx.count("root:modules-compared")
    pr = {k: v.detach().clone().requires_grad_(True) for k, v in pu.items()}
    xr = x.clone().requires_grad_(True)
    yr = recipe(pr, xr)
    gr = torch.autograd.grad(yr, [xr] + [pr[k] for k in sorted(pr)], up, allow_unused=True)
    sc = max(float(yr.detach().abs().max()), 1e-30)
    if tuple(yu.shape) != tuple(yr.shape) or float((yu.detach() - yr.detach()).abs().max()) / sc > 1e-9:
        ctx.violation(key + ":output-differs-from-the-recipe", f"max rel err {float((yu.detach() - yr.detach()).abs().max()) / sc:.3e}; output std {float(yu.std()):.3f} "
                      f"(recipe {float(yr.std()):.3f})", shape=shape)
        return
    bad = grads_differ(list(gu), list(gr), 1e-9, ["x"] + sorted(pu))
    if bad:
        ctx.violation(key + ":gradient-differs-from-the-recipe", bad, shape=shape)
        return
    # re-initialisation in the returned copy: biases of the Linear layers are zero
    lin_bias = [k for k, mod in us.named_modules() if isinstance(mod, nn.Linear) and mod.bias is not None]
    for k in lin_bias:
        b_ = pu[(k + "." if k else "") + "bias"]
        if float(b_.detach().abs().max()) != 0.0:
            ctx.violation(key + ":linear-bias-not-zero-in-the-returned-copy", k, shape=shape)
    ctx.nontrivial(f"root|{shape}|{d0}|{d1}|{d2}")


def explain(prog, usp, inputs, outs_u, interp_replace, mod_attrs, grads_u=None, ups=None) -> str:
    """Attribute a mismatch to a mechanism by evaluating alternative (wrong) recipes; returns a mechanism name or 'unexplained'
    (+ structural features).  Only used to key witnesses - never to excuse them."""
    import copy
    import torch
    from .. import progs

    A = progs.analyse(prog)
    byout = {o["out"]: o for o in prog["ops"]}

    def close(outs_r) -> bool:
        for yu, yr in zip(outs_u, outs_r):
            if tuple(yu.shape) != tuple(yr.shape):
                return False
            sc = max(float(yr.detach().abs().max()), 1e-300)
            if not float((yu.detach() - yr.detach()).abs().max()) / sc <= 1e-10:
                return False
        return True

    def run_variant(mutate) -> bool:
        orig = progs.analyse

        def patched(p):
            a = orig(p)
            mutate(a)
            return a
        progs.analyse = patched
        try:
            if grads_u is None:
                pref = {k: v.detach().clone() for k, v in usp.items()}
                ins = [t.detach().clone() for t in inputs]
                with torch.no_grad():
                    outs, _ = progs.interpret(prog, pref, ins, "recipe", replace=interp_replace, mod_attrs=mod_attrs)
                return close(outs)
            # gradient-only mismatch: the alternative recipe must reproduce the library's gradients as well
            pref = {k: v.detach().clone().requires_grad_(True) for k, v in usp.items()}
            ins = [t.detach().clone().requires_grad_(True) if t.is_floating_point() else t.clone() for t in inputs]
            outs, _ = progs.interpret(prog, pref, ins, "recipe", replace=interp_replace, mod_attrs=mod_attrs)
            if not close(outs):
                return False
            leaves = [t for t in ins if t.is_floating_point()] + [pref[k] for k in sorted(usp)]
            gr = torch.autograd.grad([y for y in outs if y.requires_grad], leaves, [u for y, u in zip(outs, ups) if y.requires_grad], allow_unused=True)
            for a, b in zip(grads_u, gr):
                if a is None or b is None:
                    continue
                sc = max(float(b.abs().max()), float(a.abs().max()), 1e-300)
                if not float((a - b).abs().max()) / sc <= 1e-9:
                    return False
            return True
        except Exception:
            return False
        finally:
            progs.analyse = orig

    # hypothesis 1: residual adds whose skip tensor is itself produced by a plain (non-residual) add are treated as plain adds
    def h1(a):
        for add in list(a["residual"]):
            sk = a["residual"][add]["skip"]
            if sk in byout and byout[sk]["op"] in ("add", "iadd") and sk not in a["residual"]:
                del a["residual"][add]
        _recompute(a)

    def _recompute(a):
        succ = set()
        for add in a["residual"]:
            succ |= a["anc"][add]
            succ.add(add)
        a["has_residual_successor"] = succ
        sk = {}
        for add, info in a["residual"].items():
            sk.setdefault(info["skip"], []).append(add)
        a["skip_of"] = sk

    if any(byout.get(i["skip"], {}).get("op") in ("add", "iadd") and i["skip"] not in A["residual"] for i in A["residual"].values()):
        if run_variant(h1):
            return "residual-add-missed-when-skip-tensor-is-a-plain-sum"

    # hypothesis 2: all taus 0.5 / all 0.01 (softmax detection wrong)
    for tau, name in ((0.5, "tau-0.5-despite-softmax-or-attention-in-branch"), (0.01, "tau-0.01-without-softmax-or-attention-in-branch")):
        def h(a, tau=tau):
            for info in a["residual"].values():
                info["tau"] = tau
        if A["residual"] and run_variant(h):
            return name

    # hypothesis 3: nothing unconstrained / everything unconstrained
    def h3(a):
        a["has_residual_successor"] = set(byout) | set(a["anc"])
    if run_variant(h3):
        return "ops-after-last-residual-left-constrained"

    def h4(a):
        a["has_residual_successor"] = set()
    if run_variant(h4):
        return "ops-before-a-residual-add-unconstrained"
    feats = [f for f in progs.features(prog) if not f.startswith("residual:")]
    return "unexplained" + (":" + "+".join(feats[:4]) if feats else "")
