"""C20 - eager and torch.compile execution of scaled ops agree (fx: forward values)."""

from __future__ import annotations

import math
import os
from typing import Any, Dict, List

from ..common import derive_seed, exc_key, loguniform, rng_for

PROPERTY = "C20"
LEVEL = "exploration"
RULE = ("'fn' cases: each of the 16 public unit-scaled functions with seeded shapes / hyper-parameters / constraint (as C01, random ops "
        "with p=0); 'comp' cases: random compositions of 2-6 unit-scaled functions and modules (Linear, MLP, MHSA, TransformerLayer, "
        "norms, residual_apply, losses; 30% of the loss-free ones END in residual_split with both outputs leaving the compiled region, or break the graph right after it - under Inductor that form is only judged if a library-free witness of a PyTorch defect does not reproduce); dtypes float32 / float64 / bfloat16. Each is executed eagerly and under torch.compile with "
        "backend aot_eager (quick) and inductor (thorough), after torch._dynamo.reset(); outputs and all input/parameter gradients "
        "are compared; the Dynamo counters must show a captured graph (otherwise the comparison would be eager-vs-eager). fx: "
        "symbolic_trace + GraphModule forward values for every function that traces; the library's leaf-wrapping tracer "
        "(_DeepTracer) for outputs and gradients of compositions. Non-trivial = forward and backward scale factors differ somewhere "
        "or a constraint is active; distinct = (function/composition signature, dtype, backend). A third of the cases run an eager no_grad / inference_mode pass first. A bfloat16 slice covers every op (add with equal-shape operands); half of the gradients are taken with backward() and read from the .grad fields.")
ASSUMPTIONS = ["eager execution is the reference", "Inductor may reorder reductions: float tolerance; aot_eager expected bit-identical (4 ulp allowed)"]
IMPORTS = ["unit_scaling.scale", "unit_scaling.functional", "unit_scaling.parameter", "unit_scaling.utils", "unit_scaling._modules"]
REQUIRED_MONITORS = ["compiled:cases", "compiled:graphs-captured", "compiled:outputs-compared", "compiled:grads-compared", "fx:traced-functions",
                     "fx:outputs-compared", "deeptracer:compared"]
REQUIRED_REACH = {"scale.py": ["_ScaledGrad.forward", "_ScaledGrad.backward"], "utils.py": ["_DeepTracer.trace", "_DeepTracer.is_leaf_module"]}
MIN_NONTRIVIAL = {"quick": 80, "thorough": 900}
WATCHDOG = {"quick": 2400, "thorough": 8 * 3600}
REACH = True
STEPS = ["residual_const", "residual_detached", "gelu", "silu", "softmax", "layer_norm", "rms_norm", "linear", "linear_nobias", "silu_glu", "add", "residual_mlp", "residual_attn", "sdpa", "dropout0",
         "mod_linear", "mod_mlp", "mod_mhsa", "mod_tlayer", "matmul", "conv1d", "mod_rmsnorm", "mod_layernorm", "mod_conv1d", "mod_gelu"]


def gen_cases(tier: str, seed: int) -> List[Dict[str, Any]]:
    from ..optable import OPS

    q = tier == "quick"
    cases: List[Dict[str, Any]] = []
    names = sorted(OPS)
    n_fn = 96 if q else 2400
    for i in range(n_fn):
        rng = rng_for(seed, PROPERTY, "fn", i)
        fn = names[i % len(names)]
        op = OPS[fn]
        cfg = op.gen(rng)
        if fn == "dropout":
            cfg["p"] = 0.0 if rng.random() < 0.5 else cfg["p"]
            cfg["training"] = cfg["p"] == 0.0
        if fn == "scaled_dot_product_attention":
            cfg["dropout_p"] = 0.0
        cons = op.constraints()
        cases.append({"kind": "fn", "fn": fn, "cfg": cfg, "constraint": rng.choice(cons), "dtype": rng.choice(["float32", "float32", "float64", "bfloat16"]),
                      "backend": "aot_eager", "fx": True, "seed": derive_seed(seed, PROPERTY, "fn", i) % (2**31)})
    # 16-bit slice: every op in bfloat16, `add` with two equal-shape tensor operands (autograd hands ONE gradient tensor object to
    # both operands there: a backward that works in place on 16-bit gradients shows only in this form)
    for i in range(len(names) * (1 if q else 12)):
        rng = rng_for(seed, PROPERTY, "fn16", i)
        fn = names[i % len(names)]
        op = OPS[fn]
        cfg = op.gen(rng)
        if fn == "add":
            for _ in range(200):
                if cfg["mode"] == "same":
                    break
                cfg = op.gen(rng)
        if fn == "dropout":
            cfg["p"], cfg["training"] = 0.0, True
        if fn == "scaled_dot_product_attention":
            cfg["dropout_p"] = 0.0
        cases.append({"kind": "fn", "fn": fn, "cfg": cfg, "constraint": rng.choice(op.constraints()), "dtype": "bfloat16",
                      "backend": "aot_eager", "fx": False, "seed": derive_seed(seed, PROPERTY, "fn16", i) % (2**31)})
    n_comp = 88 if q else 2100
    for i in range(n_comp):
        rng = rng_for(seed, PROPERTY, "comp", i)
        steps = [rng.choice(STEPS) for _ in range(rng.randint(2, 6))]
        cases.append({"kind": "comp", "steps": steps, "loss": rng.choice([None, None, "mse", "ce"]), "dtype": rng.choice(["float32", "float32", "float64", "bfloat16"]),
                      "backend": "aot_eager", "mults": [round(loguniform(rng, 0.25, 4), 3) for _ in steps],
                      "cons": [rng.choice([None, "gmean", "to_output_scale", "to_grad_input_scale", "hmean"]) for _ in steps],
                      "seed": derive_seed(seed, PROPERTY, "comp", i) % (2**31)})
        if cases[-1]["loss"] is None and rng.random() < 0.3:
            # the compiled region ENDS in residual_split (both outputs escape the graph), or Dynamo breaks the graph right after it
            cases[-1]["tail"] = rng.choice(["split", "split+break"])
    if not q:
        for i in range(200):
            rng = rng_for(seed, PROPERTY, "ind", i)
            if i % 2 == 0:
                fn = names[(i // 2) % len(names)]
                op = OPS[fn]
                cfg = op.gen(rng)
                if fn == "dropout":
                    cfg["p"], cfg["training"] = 0.0, True
                if fn == "scaled_dot_product_attention":
                    cfg["dropout_p"] = 0.0
                cases.append({"kind": "fn", "fn": fn, "cfg": cfg, "constraint": rng.choice(op.constraints()), "dtype": rng.choice(["float32", "float64", "bfloat16"]),
                              "backend": "inductor", "fx": False, "seed": derive_seed(seed, PROPERTY, "ind", i) % (2**31)})
            else:
                steps = [rng.choice(STEPS) for _ in range(rng.randint(2, 5))]
                cases.append({"kind": "comp", "steps": steps, "loss": rng.choice([None, "mse"]), "dtype": rng.choice(["float32", "float64", "bfloat16"]),
                              "backend": "inductor", "mults": [round(loguniform(rng, 0.25, 4), 3) for _ in steps],
                              "cons": [rng.choice([None, "gmean", "to_output_scale"]) for _ in steps], "seed": derive_seed(seed, PROPERTY, "ind", i) % (2**31)})
                if cases[-1]["loss"] is None and rng.random() < 0.3:
                    cases[-1]["tail"] = rng.choice(["split", "split+break"])
    return cases


def setup(state):
    d = os.path.join(os.environ.get("VMON_SCRATCH", "/var/tmp"), f"inductor_{os.getpid()}")
    os.environ.setdefault("TORCHINDUCTOR_CACHE_DIR", d)
    state["fx_traceable"] = set()
    state["fx_untraceable"] = set()


def tol_for(dtype, backend) -> float:
    import torch

    if backend == "inductor":
        return {torch.float32: 1e-4, torch.float64: 1e-10, torch.bfloat16: 2.0**-6}[dtype]
    return {torch.float32: 4 * 2.0**-23, torch.float64: 4 * 2.0**-52, torch.bfloat16: 4 * 2.0**-7}[dtype]


def compare(a, b, tol) -> Any:
    import torch

    if (a is None) != (b is None):
        return "present on one side only"
    if a is None:
        return None
    if tuple(a.shape) != tuple(b.shape) or a.dtype != b.dtype:
        return f"shape/dtype {tuple(a.shape)} {a.dtype} vs {tuple(b.shape)} {b.dtype}"
    ad, bd = a.detach().double(), b.detach().double()
    if not bool(torch.isfinite(bd).all()):
        return None if bool((torch.isfinite(ad) == torch.isfinite(bd)).all()) else "non-finite pattern differs"
    sc = max(float(bd.abs().max()), 1e-300) if bd.numel() else 1.0
    err = float((ad - bd).abs().max()) / sc if bd.numel() else 0.0
    return None if err <= tol else f"rel err {err:.3e} > {tol:.1e}"


def run_case(case: Dict[str, Any], ctx) -> None:
    ctx.count("evaluations")
    if case["kind"] == "fn":
        return run_fn(case, ctx)
    return run_comp(case, ctx)


def _dynamo_internal(e: BaseException) -> bool:
    """Errors PyTorch itself declares to be its own bug (observed: 'Guard failed on the same frame it was created. This is a bug -
    please create an issue' after a graph break inside a module holding closures). Not attributable to unit-scaling: excluded, counted."""
    msg = str(e)
    return "This is a bug - please create an issue" in msg or type(e).__name__ == "InternalTorchDynamoError"


def _compiled_ok(ctx, torch) -> bool:
    stats = torch._dynamo.utils.counters["stats"]
    n = stats.get("unique_graphs", 0)
    if n > 0:
        ctx.count("compiled:graphs-captured", n)
        return True
    return False


def _inductor_merges_identical_outputs(state, torch) -> bool:
    """Environment self-test, pure PyTorch (no unit_scaling code): two DIFFERENT custom autograd Functions whose forward values
    coincide (f * X with f == 1) applied to one intermediate and both returned from an Inductor-compiled function. PyTorch 2.x's
    Inductor returns ONE buffer for both outputs and the tangents are mis-routed: the input gradient differs from eager and from
    aot_eager. Where this PyTorch defect is present, compiled regions that end in U.residual_split cannot be judged under
    Inductor (they are judged under aot_eager)."""
    if "inductor_merge_bug" in state:
        return state["inductor_merge_bug"]

    class SG(torch.autograd.Function):
        @staticmethod
        def forward(ctx, X, f, b):
            ctx.save_for_backward(torch.tensor(b, dtype=X.dtype))
            return f * X

        @staticmethod
        def backward(ctx, g):
            (b,) = ctx.saved_tensors
            return b * g, None, None

    def f(x):
        h = torch.tanh(x)
        return SG.apply(h, 1.0, 0.25), SG.apply(h, 1.0, 2.0)

    res = []
    for be in (None, "inductor"):
        x = torch.linspace(-1, 1, 24, dtype=torch.float64).reshape(4, 6).requires_grad_(True)
        g1, g2 = torch.full((4, 6), 1.0, dtype=torch.float64), torch.full((4, 6), -3.0, dtype=torch.float64)
        try:
            fn = f if be is None else torch.compile(f, backend=be)
            r, s = fn(x)
            (gx,) = torch.autograd.grad([r, s], [x], [g1, g2])
            res.append(gx)
        except Exception:
            res.append(None)
        torch._dynamo.reset()
    bug = res[1] is None or not bool(torch.allclose(res[0], res[1], rtol=1e-9, atol=1e-12))
    state["inductor_merge_bug"] = bug
    return bug


def run_fn(case, ctx) -> None:
    import torch
    import torch._dynamo
    import unit_scaling.functional as U
    from torch import fx
    from ..instruments import DTYPES
    from ..optable import OPS

    op = OPS[case["fn"]]
    cfg, constraint = case["cfg"], case["constraint"]
    dtype = DTYPES[case["dtype"]]
    if case["fn"] == "conv1d" and case["dtype"] == "bfloat16":
        # PyTorch's own bfloat16 conv1d backward is not reproducible under aot_eager (uninitialised memory in padding-only
        # positions, non-deterministic): the plain op cannot serve as a stable baseline, so conv1d is exercised in float32/64
        dtype = torch.float32
    backend = case["backend"]
    gen = torch.Generator().manual_seed(case["seed"])
    base = op.build(cfg, gen, dtype)
    tnames = [k for k, v in base.items() if isinstance(v, torch.Tensor)]
    other = {k: v for k, v in base.items() if not isinstance(v, torch.Tensor)}

    def f(*tensors):
        a = dict(other)
        a.update(dict(zip(tnames, tensors)))
        return op.call_u(U, a, cfg, constraint)

    def leaves():
        return [base[k].detach().clone().requires_grad_(True) if base[k].is_floating_point() and k in op.diff else base[k].detach().clone() for k in tnames]

    key = f"C20:{case['fn']}:{backend}"
    if case["seed"] % 3 == 0:
        # history: a validation pass first - the same call made eagerly under torch.no_grad() / inference_mode before any
        # gradient is ever taken (state remembered from that first use must not leak into the training-mode calls)
        try:
            with (torch.no_grad() if case["seed"] % 2 else torch.inference_mode()):
                torch.manual_seed(0)
                f(*[t.detach().clone() for t in leaves()])
            ctx.count("history:eager-no_grad-pass-first")
        except Exception:
            pass
    torch.manual_seed(0)
    le = leaves()
    try:
        ye = f(*le)
    except Exception as e:
        ctx.skip("eager raises")
        return
    up = torch.randn(ye.shape, generator=gen, dtype=torch.float64).to(ye.dtype)
    # half of the cases take gradients the way a training loop does (`y.backward(g)` + the leaves' `.grad` fields: AccumulateGrad
    # copies or steals what the backward nodes hand it, so a backward that works in place on a shared gradient tensor shows here
    # and not with `autograd.grad`, which captures the one mutated tensor object for both operands)
    via_backward = case["seed"] % 2 == 0

    def grads_of(y, ls):
        req = [t for t in ls if t.requires_grad]
        if not y.requires_grad:
            return []
        if via_backward and all(t.is_leaf for t in req):
            ctx.count("grads:via-backward-and-grad-fields")
            y.backward(up.clone())
            return [t.grad for t in req]
        return torch.autograd.grad(y, req, up, allow_unused=True)

    ge = grads_of(ye, le)
    torch._dynamo.reset()
    torch._dynamo.utils.counters.clear()
    lc = leaves()
    ctx.count("compiled:cases")
    try:
        cf = torch.compile(f, backend=backend)
        torch.manual_seed(0)
        yc = cf(*lc)
        gc = grads_of(yc, lc)
    except Exception as e:
        if _dynamo_internal(e):
            ctx.count("excluded:torchdynamo-internal-error")
            ctx.skip("TorchDynamo internal error (self-declared PyTorch bug)")
            return
        ctx.violation(f"{key}:raises-only-when-compiled:{exc_key(e)}", repr(e)[:600], cfg=cfg, constraint=constraint, dtype=case["dtype"])
        return
    if not _compiled_ok(ctx, torch):
        ctx.count("inconclusive:no-graph-captured")
        return
    tol = tol_for(dtype, backend)
    ctx.count("compiled:outputs-compared")
    names = [k for k, t in zip(tnames, le) if t.requires_grad]
    bad_out = compare(yc, ye, tol)
    bad_grad = None
    ctx.count("compiled:grads-compared", len(ge))
    from ..instruments import grads_differ
    gdiff = grads_differ(list(gc), list(ge), tol, names) if not any((a is None) != (b is None) for a, b in zip(gc, ge)) else "a gradient is present on one side only"
    if gdiff:
        bad_grad = (gdiff.split(":")[0], gdiff)
    if bad_out or bad_grad:
        # Is it the scaled op, or does the PLAIN PyTorch op already disagree between eager and this backend for these inputs?
        # (observed: bfloat16 conv1d backward under aot_eager returns uninitialised memory in padding-only positions)
        def fr(*tensors):
            a = dict(other)
            a.update(dict(zip(tnames, tensors)))
            return op.call_ref(a, cfg)
        try:
            l1, l2 = leaves(), leaves()
            torch.manual_seed(0)
            r1 = fr(*l1)
            g1 = torch.autograd.grad(r1, [t for t in l1 if t.requires_grad], up.to(r1.dtype), allow_unused=True)
            torch._dynamo.reset()
            torch.manual_seed(0)
            r2 = torch.compile(fr, backend=backend)(*l2)
            g2 = torch.autograd.grad(r2, [t for t in l2 if t.requires_grad], up.to(r2.dtype), allow_unused=True)
            plain_differs = bool(compare(r2, r1, tol)) or any(compare(a, b, tol) for a, b in zip(g2, g1))
        except Exception:
            plain_differs = False
        if plain_differs:
            ctx.count("excluded:plain-pytorch-op-differs-between-eager-and-compiled")
            ctx.skip("PyTorch's own op differs between eager and compiled for these inputs")
            return
        if backend == "inductor" and dtype != torch.float64:
            # fused low-precision kernels accumulate in float32 where eager rounds after every op: judge against the float64 truth
            try:
                l64 = [t.detach().double().requires_grad_(t.requires_grad) if t.is_floating_point() else t.clone() for t in leaves()]
                torch.manual_seed(0)
                y64 = f(*l64)
                g64 = torch.autograd.grad(y64, [t for t in l64 if t.requires_grad], up.double(), allow_unused=True) if y64.requires_grad else []

                def dist(a, b):
                    if a is None or b is None:
                        return 0.0
                    sc = max(float(b.abs().max()), 1e-300)
                    return float((a.detach().double() - b).abs().max()) / sc
                pairs = [(yc, ye, y64.detach())] + [(a, b, c) for a, b, c in zip(gc, ge, g64)]
                ok = all(dist(a, c) <= 4 * dist(b, c) + tol for a, b, c in pairs)
            except Exception:
                ok = False
            if ok:
                ctx.count("lowp:compiled-no-farther-from-float64-truth-than-eager")
                bad_out = bad_grad = None
        if not (bad_out or bad_grad):
            pass
        elif bad_out:
            ctx.violation(f"{key}:output-differs-from-eager", bad_out, cfg=cfg, constraint=constraint, dtype=case["dtype"])
        else:
            ctx.violation(f"{key}:gradient-differs-from-eager:{bad_grad[0]}", bad_grad[1], cfg=cfg, constraint=constraint, dtype=case["dtype"])
        bad_out = bad_grad = None
    ctx.nontrivial(f"{case['fn']}|{constraint}|{case['dtype']}|{backend}|{sorted((k, str(v)) for k, v in cfg.items() if not isinstance(v, float))}")
    # ---- history: the SAME compiled callable called again with another floating dtype (recompilation under guards) ------
    if backend == "aot_eager" and case["fn"] != "conv1d" and dtype in (torch.float32, torch.float64):
        dt2 = torch.float64 if dtype == torch.float32 else torch.float32
        try:
            def conv(ts):
                return [t.detach().to(dt2).requires_grad_(t.requires_grad) if t.is_floating_point() else t.clone() for t in ts]
            le2, lc2 = conv(leaves()), conv(leaves())
            torch.manual_seed(0)
            ye2 = f(*le2)
            torch.manual_seed(0)
            yc2 = cf(*lc2)
            ctx.count("history:compiled-callable-reused-with-another-dtype")
            bad2 = compare(yc2, ye2, tol_for(dt2, backend))
            if not bad2 and ye2.requires_grad:
                up2 = up.to(dt2)
                g_e = torch.autograd.grad(ye2, [t for t in le2 if t.requires_grad], up2, allow_unused=True)
                g_c = torch.autograd.grad(yc2, [t for t in lc2 if t.requires_grad], up2, allow_unused=True)
                for a, b_ in zip(g_c, g_e):
                    bad2 = bad2 or compare(a, b_, tol_for(dt2, backend))
            if bad2:
                ctx.violation(f"{key}:differs-from-eager-when-the-compiled-callable-is-reused-with-another-dtype", f"{case['dtype']} then {dt2}: {bad2}",
                              cfg=cfg, constraint=constraint)
        except Exception as e:
            if not _dynamo_internal(e):
                ctx.violation(f"{key}:raises-when-the-compiled-callable-is-reused-with-another-dtype:{exc_key(e)}", repr(e)[:400], cfg=cfg)
    # ---- plain torch.fx symbolic trace: forward values -------------------------------------------------
    if case.get("fx"):
        st = ctx.state
        try:
            gm = fx.symbolic_trace(f, concrete_args=None) if False else _trace_positional(f, len(tnames), fx)
        except Exception as e:
            st["fx_untraceable"].add(case["fn"])
            ctx.count("fx:not-traceable")
            return
        st["fx_traceable"].add(case["fn"])
        ctx.count("fx:traced-functions")
        try:
            lf = leaves()
            torch.manual_seed(0)
            yf = gm(*lf)
        except Exception as e:
            ctx.violation(f"C20:{case['fn']}:fx:traced-graph-raises:{exc_key(e)}", repr(e)[:500], cfg=cfg, constraint=constraint)
            return
        ctx.count("fx:outputs-compared")
        bad = compare(yf, ye, tol_for(dtype, "aot_eager"))
        if bad:
            ctx.violation(f"C20:{case['fn']}:fx:forward-values-differ-from-eager", bad, cfg=cfg, constraint=constraint, dtype=case["dtype"])


def _trace_positional(f, n, fx):
    """fx.symbolic_trace needs a fixed positional signature."""
    import torch

    src = "def g(" + ", ".join(f"a{i}" for i in range(n)) + "):\n    return f(" + ", ".join(f"a{i}" for i in range(n)) + ")\n"
    ns = {"f": f}
    exec(src, ns)
    return fx.symbolic_trace(ns["g"])


def build_comp(case, torch):
    import unit_scaling as uu
    import unit_scaling.functional as U
    from torch import nn

    D, B, S = 8, 2, 5
    S_ = S
    steps, mults, cons = case["steps"], case["mults"], case["cons"]

    class Comp(nn.Module):
        def __init__(self):
            super().__init__()
            g = torch.Generator().manual_seed(case["seed"])
            self.ws = nn.ParameterList([nn.Parameter(torch.randn(D, D, generator=g)) for _ in steps])
            self.bs = nn.ParameterList([nn.Parameter(torch.randn(D, generator=g) * 0.1) for _ in steps])
            self.mods = nn.ModuleList()
            for s in steps:
                if s == "mod_linear":
                    self.mods.append(uu.Linear(D, D, bias=True))
                elif s == "mod_mlp":
                    self.mods.append(uu.MLP(D, 2))
                elif s == "mod_mhsa":
                    self.mods.append(uu.MHSA(D, 2, is_causal=True))
                elif s == "mod_tlayer":
                    self.mods.append(uu.TransformerLayer(D, 2, mhsa_tau=0.3, mlp_tau=0.7, is_causal=False))
                elif s == "mod_rmsnorm":
                    self.mods.append(uu.RMSNorm(D, elementwise_affine=True))
                elif s == "mod_layernorm":
                    self.mods.append(uu.LayerNorm(D, elementwise_affine=True))
                elif s == "mod_conv1d":
                    self.mods.append(uu.Conv1d(S_, S_, 3, padding=1, bias=True, constraint="gmean"))
                elif s == "mod_gelu":
                    self.mods.append(uu.GELU(mult=2.0, constraint="hmean", approximate="tanh"))
                else:
                    self.mods.append(nn.Identity())
            self.head = uu.LinearReadout(D, 7)

        def forward(self, h, target=None):
            for i, s in enumerate(steps):
                w, b, m, c = self.ws[i], self.bs[i], mults[i], cons[i]
                if s == "gelu":
                    h = U.gelu(h, mult=m, constraint=c)
                elif s == "silu":
                    h = U.silu(h, mult=m, constraint=c)
                elif s == "softmax":
                    h = U.softmax(h, dim=-1, mult=m, constraint=c)
                elif s == "layer_norm":
                    h = U.layer_norm(h, (D,), b + 1.0, b)
                elif s == "rms_norm":
                    h = U.rms_norm(h, (D,), b + 1.0)
                elif s == "linear":
                    h = U.linear(h, w, b, constraint=c)
                elif s == "linear_nobias":
                    h = U.linear(h, w, None, constraint=c)
                elif s == "silu_glu":
                    h = U.silu_glu(h, U.linear(h, w, None), mult=m)
                elif s == "add":
                    h = U.add(h, U.linear(h, w, None), constraint=c if c in (None, "gmean", "hmean", "to_output_scale") else None)
                elif s == "residual_mlp":
                    h = U.residual_apply(lambda r: U.linear(U.gelu(U.linear(r, w, None)), w.T, None), h, tau=m)
                elif s == "residual_const":
                    h = U.residual_apply(lambda r: (b * 1.0).expand(r.shape), h, tau=m)
                elif s == "residual_detached":
                    h = U.residual_apply(lambda r: U.gelu(U.linear(r.detach(), w, None)), h, tau=m)
                elif s == "residual_attn":
                    h = U.residual_apply(lambda r: U.scaled_dot_product_attention(r, r, U.linear(r, w, None), is_causal=True, mult=m), h, tau=0.1)
                elif s == "sdpa":
                    h = U.scaled_dot_product_attention(h, U.linear(h, w, None), h, mult=m)
                elif s == "dropout0":
                    h = U.dropout(h, 0.0, True)
                elif s == "matmul":
                    h = U.matmul(h, w, constraint=c if c in (None, "gmean", "hmean", "to_output_scale") else "to_left_grad_scale")
                elif s == "conv1d":
                    h = U.conv1d(h.transpose(1, 2), w.unsqueeze(-1).repeat(1, 1, 3), b, padding=1, constraint=c).transpose(1, 2)
                else:
                    h = self.mods[i](h)
            if case.get("tail") == "split":
                return U.residual_split(h, mults[0])
            if case.get("tail") == "split+break":
                r, sk = U.residual_split(h, mults[0])
                torch._dynamo.graph_break()
                return U.residual_add(U.gelu(r), sk, mults[0])
            if case["loss"] == "mse":
                return U.mse_loss(h, target)
            if case["loss"] == "ce":
                return U.cross_entropy(self.head(h).flatten(end_dim=-2), target)
            return h
    return Comp(), (B, S, D)


def run_comp(case, ctx) -> None:
    import copy

    import torch
    import torch._dynamo
    import unit_scaling.utils as UT
    from torch import fx
    from ..instruments import DTYPES

    dtype = DTYPES[case["dtype"]]
    if "conv1d" in case["steps"] and case["dtype"] == "bfloat16":
        dtype = torch.float32  # PyTorch's own bfloat16 conv1d backward differs between eager and aot_eager (uninitialised memory)
    backend = case["backend"]
    torch.manual_seed(case["seed"])
    m, (B, S, D) = build_comp(case, torch)
    m = m.to(dtype)
    g = torch.Generator().manual_seed(case["seed"] + 1)
    x = torch.randn(B, S, D, generator=g, dtype=torch.float64).to(dtype)
    tgt = None
    if case["loss"] == "mse":
        tgt = torch.randn(B, S, D, generator=g, dtype=torch.float64).to(dtype)
    elif case["loss"] == "ce":
        tgt = torch.randint(0, 7, (B * S,), generator=g)
    key = f"C20:composition:{backend}"
    sig = "+".join(case["steps"]) + f"|{case['loss']}" + (f"|tail={case['tail']}" if case.get("tail") else "")
    if case.get("tail"):
        ctx.count("form:region-ends-in-residual_split" if case["tail"] == "split" else "form:graph-break-right-after-residual_split")
        if backend == "inductor" and _inductor_merges_identical_outputs(ctx.state, torch):
            # PyTorch defect, reproduced at run time WITHOUT the library (see the function): not judged
            ctx.count("excluded:inductor-merges-value-identical-outputs-of-custom-functions(PyTorch)")
            ctx.skip("Inductor merges value-identical outputs of distinct custom autograd Functions (PyTorch defect, reproduced without the library)")
            return

    def run(mod):
        xi = x.detach().clone().requires_grad_(True)
        torch.manual_seed(0)
        y = mod(xi, tgt) if tgt is not None else mod(xi)
        ys = list(y) if isinstance(y, (tuple, list)) else [y]
        gu = torch.Generator().manual_seed(case["seed"] + 2)
        ups = [torch.randn(t.shape, generator=gu, dtype=torch.float64).to(t.dtype) for t in ys]
        ps = [p for p in mod.parameters()]
        gr = torch.autograd.grad(ys, [xi] + ps, ups, allow_unused=True)
        return (y if len(ys) == 1 and not isinstance(y, (tuple, list)) else torch.cat([t.reshape(-1) for t in ys])), gr

    if case["seed"] % 3 == 0:
        try:
            with (torch.no_grad() if case["seed"] % 2 else torch.inference_mode()):
                torch.manual_seed(0)
                m(x.detach().clone(), tgt) if tgt is not None else m(x.detach().clone())
            ctx.count("history:eager-no_grad-pass-first")
        except Exception:
            pass
    try:
        ye, ge = run(m)
    except Exception as e:
        ctx.skip("eager raises")
        ctx.note(f"eager composition raised {e!r} for {sig}")
        return
    torch._dynamo.reset()
    torch._dynamo.utils.counters.clear()
    ctx.count("compiled:cases")
    m2 = copy.deepcopy(m)
    try:
        cm = torch.compile(m2, backend=backend)
        yc, gc = run(cm)
    except Exception as e:
        if _dynamo_internal(e):
            ctx.count("excluded:torchdynamo-internal-error")
            ctx.skip("TorchDynamo internal error (self-declared PyTorch bug)")
            return
        ctx.violation(f"{key}:raises-only-when-compiled:{exc_key(e)}", repr(e)[:600], steps=case["steps"], dtype=case["dtype"])
        return
    if not _compiled_ok(ctx, torch):
        ctx.count("inconclusive:no-graph-captured")
        return
    tol = tol_for(dtype, backend) * (4 if backend == "inductor" else 1)
    ctx.count("compiled:outputs-compared")
    bad = compare(yc, ye, tol)
    bad_g = None
    if not bad:
        ctx.count("compiled:grads-compared", len(ge))
        from ..instruments import grads_differ
        if any((a is None) != (b is None) for a, b in zip(gc, ge)):
            bad_g = "a gradient is present on one side only"
        else:
            bad_g = grads_differ(list(gc), list(ge), tol * 4)
    if (bad or bad_g) and backend == "inductor" and dtype != torch.float64:
        # Inductor fuses ops and keeps intermediates in float32, eager rounds after every op: over a chain of low-precision ops the
        # two drift apart legitimately. Judge against the float64 truth: the compiled result may not be (much) farther from it
        # than eager execution itself is.
        try:
            m64 = copy.deepcopy(m).to(torch.float64)
            x64 = x.detach().double().requires_grad_(True)
            t64 = tgt.double() if (tgt is not None and tgt.is_floating_point()) else tgt
            torch.manual_seed(0)
            y64 = m64(x64, t64) if t64 is not None else m64(x64)
            up64 = torch.randn(y64.shape, generator=torch.Generator().manual_seed(case["seed"] + 2), dtype=torch.float64).to(dtype).double()
            g64 = torch.autograd.grad(y64, [x64] + list(m64.parameters()), up64, allow_unused=True)

            def dist(a, b):
                if a is None or b is None:
                    return 0.0
                sc = max(float(b.abs().max()), 1e-300)
                return float((a.detach().double() - b).abs().max()) / sc
            worst = 0.0
            pairs = [(yc, ye, y64.detach())] + [(a, b, c) for a, b, c in zip(gc, ge, g64)]
            ok = all(dist(a, c) <= 4 * dist(b, c) + tol for a, b, c in pairs)
        except Exception:
            ok = False
        if ok:
            ctx.count("lowp:compiled-no-farther-from-float64-truth-than-eager")
            bad = bad_g = None
    if bad:
        ctx.violation(f"{key}:output-differs-from-eager", f"{bad} for {sig}", steps=case["steps"], dtype=case["dtype"], cons=case["cons"])
    elif bad_g:
        ctx.violation(f"{key}:gradient-differs-from-eager", f"{bad_g} for {sig}", steps=case["steps"], dtype=case["dtype"], cons=case["cons"])
    ctx.nontrivial(f"{sig}|{case['dtype']}|{backend}|{case['cons']}")
    # ---- the library's leaf-wrapping tracer: outputs and gradients ------------------------------------
    if backend == "aot_eager" and tgt is None and not case.get("tail") and not any(s.startswith("residual") for s in case["steps"]):
        m3 = copy.deepcopy(m)
        try:
            tracer = UT._DeepTracer()
            graph = tracer.trace(m3)
            gm = fx.GraphModule(tracer.root, graph)
        except Exception as e:
            ctx.count("deeptracer:not-traceable")
            return
        try:
            yt, gt = run(gm)
        except Exception as e:
            ctx.violation(f"C20:composition:leaf-wrapping-trace:raises:{exc_key(e)}", repr(e)[:500], steps=case["steps"])
            return
        ctx.count("deeptracer:compared")
        bad = compare(yt, ye, tol_for(dtype, "aot_eager"))
        if bad:
            ctx.violation("C20:composition:leaf-wrapping-trace:output-differs-from-eager", f"{bad} for {sig}", steps=case["steps"], dtype=case["dtype"])
            return
        for i, (a, b) in enumerate(zip(gt, ge)):
            bad = compare(a, b, tol_for(dtype, "aot_eager") * 4)
            if bad:
                ctx.violation("C20:composition:leaf-wrapping-trace:gradient-differs-from-eager", f"leaf {i}: {bad} for {sig}", steps=case["steps"], dtype=case["dtype"])
                return


def finish(ctx) -> None:
    st = ctx.state
    n = len(st.get("fx_traceable", ()))
    ctx.count("fx:distinct-traceable-functions-this-worker", n)
