"""C11 - parameter groups preserved; weight decay independent of the learning rate."""

from __future__ import annotations

import math
from typing import Any, Dict, List

from ..common import derive_seed, exc_key, loguniform, rng_for
from ..opcheck import rel_close

PROPERTY = "C11"
LEVEL = "exploration"
RULE = ("each case is a list of 1-6 groups x 1-5 tagged parameters (or a bare list / generator) with optional per-group lr, "
        "weight_decay and extra keys (betas, momentum, eps, arbitrary), float or tensor lr, weight_decay in [0,0.5]; an "
        "icontract snapshot/postcondition on scaled_parameters (fires on direct calls and inside the three optimizer "
        "constructors) checks structure, identity, order, carried-over keys, non-mutation (tensor version counters + bits) "
        "and storage aliasing of tensor lrs; then 1-3 real optimizer.step() calls with zero gradients check p=(1-wd)^k p0. "
        "Non-trivial = >= 2 parameters and (extra keys or tensor lr or wd>0); distinct = layout signature. A group's params is a list, a tuple or ONE tensor; after a REFUSED call (untagged parameter) the caller's groups and lr tensors are compared as well. A group's params may also be a one-shot iterator; optimizer-level options are also given in torch's positional spelling SGD(params, lr, momentum) / Adam(params, lr, betas).")
ASSUMPTIONS = ["torch.optim.SGD / AdamW implement decoupled resp. coupled weight decay as documented"]
IMPORTS = ["unit_scaling.optim", "unit_scaling.parameter"]
REQUIRED_MONITORS = ["contract:scaled_parameters", "contract:scaled_parameters:from-optimizer-constructor", "sanitizer:tensor-lr-checked",
                     "alias:tensor-lr-pairs-checked", "decay:steps-checked", "decay:lr-times-wd-checked"]
REQUIRED_REACH = {"optim.py": ["scaled_parameters", "SGD.__init__", "Adam.__init__", "AdamW.__init__"]}
MIN_NONTRIVIAL = {"quick": 400, "thorough": 30000}
TAGS = ["weight", "bias", "norm", "output"]


def gen_cases(tier: str, seed: int) -> List[Dict[str, Any]]:
    n = 1280 if tier == "quick" else 240000
    cases = []
    for i in range(n):
        rng = rng_for(seed, PROPERTY, i)
        container = rng.choice(["groups", "groups", "groups", "list", "generator"])
        n_groups = rng.randint(1, 6) if container == "groups" else 1
        groups = []
        for g in range(n_groups):
            ps = []
            for _ in range(rng.randint(1, 5)):
                tag = rng.choice(TAGS)
                ndim = rng.choice([1, 2, 2, 3]) if tag in ("weight", "output") else 1
                shape = [rng.choice([1, 2, 3, 4, 5, 7, 8, 16]) for _ in range(ndim)]
                ps.append({"tag": tag, "shape": shape, "depth": rng.choice([None, None, 1, 4, 9])})
            extra: Dict[str, Any] = {}
            own_lr = own_wd = None
            if container == "groups":
                if rng.random() < 0.5:
                    own_lr = loguniform(rng, 1e-4, 10)
                if rng.random() < 0.5:
                    own_wd = rng.choice([0.0, round(rng.uniform(0.001, 0.5), 4)])
                if rng.random() < 0.6:
                    extra["my_tag"] = rng.choice(["a", "b", [1, 2], {"k": 1}])
                if rng.random() < 0.3:
                    extra["eps"] = 1e-12
            groups.append({"params": ps, "lr": own_lr, "wd": own_wd, "extra": extra})
        cases.append({"container": container, "groups": groups, "lr": loguniform(rng, 1e-4, 10), "lr_kind": rng.choice(["float", "float", "tensor32", "tensor64"]),
                      "wd": rng.choice([0.0, 0.01, 0.1, 0.5, round(rng.uniform(0.0, 0.5), 4)]), "independent": rng.random() < 0.8,
                      "allow": rng.random() < 0.3, "untagged": rng.random() < 0.15, "opt": rng.choice(["SGD", "AdamW", "Adam", "direct"]),
                      "steps": rng.randint(1, 3), "momentum": rng.choice([0.0, 0.0, 0.9]), "share_tensor_lr": rng.random() < 0.5,
                      "seed": derive_seed(seed, PROPERTY, "s", i) % (2**31)})
    return cases


class Broken(Exception):
    pass


def setup(state: Dict[str, Any]) -> None:
    import icontract
    import torch
    import unit_scaling.optim as O
    from ..instruments import bits_equal, install

    counts: Dict[str, int] = {}
    viol: List[Dict[str, Any]] = []
    state.update(counts=counts, viol=viol, direct=[False])

    def bump(k, n=1):
        counts[k] = counts.get(k, 0) + n

    def rec(key, msg, **d):
        if len(viol) < 40:
            viol.append({"key": key, "msg": msg, "detail": d})

    def _plist(x):
        """a group's "params" as torch.optim reads it: one tensor, or any iterable of tensors"""
        if isinstance(x, OneShotParams):
            return list(x.items)  # (the harness remembers what the iterator is going to yield; peeking would consume it)
        return [x] if isinstance(x, torch.Tensor) else list(x)

    def snap(params, lr):
        """Taken before the call. Generators cannot be peeked without consuming them: the harness
        hands such inputs over as a recording iterable instead (see RecordingIter)."""
        src = params.items if isinstance(params, RecordingIter) else params
        entries = []
        if isinstance(src, (list, tuple)):
            for e in src:
                if isinstance(e, dict):
                    d = {"dict": e, "keys": list(e.keys()), "params_obj": e["params"], "params_ids": [id(p) for p in _plist(e["params"])], "vals": {}}
                    for k, v in e.items():
                        if k == "params":
                            continue
                        if isinstance(v, torch.Tensor):
                            d["vals"][k] = ("tensor", v, v._version, v.detach().clone(), v.untyped_storage().data_ptr())
                        else:
                            import copy
                            d["vals"][k] = ("value", copy.deepcopy(v))
                    entries.append(d)
                else:
                    entries.append({"tensor_entry": e})
        lr_snap = None
        if isinstance(lr, torch.Tensor):
            lr_snap = (lr, lr._version, lr.detach().clone(), lr.untyped_storage().data_ptr())
        return {"entries": entries, "lr": lr_snap}

    def post(params, lr, weight_decay, independent_weight_decay, allow_non_unit_scaling_params, result, OLD):
        bump("contract:scaled_parameters")
        if not state["direct"][0]:
            bump("contract:scaled_parameters:from-optimizer-constructor")
        s = OLD.s
        try:
            _judge(s, lr, weight_decay, independent_weight_decay, result)
        except Exception as e:
            rec("C11:monitor-error", repr(e))
        return True

    def _judge(s, lr, weight_decay, independent, result):
        flat = []  # (param object, source dict or None)
        for e in s["entries"]:
            if "dict" in e:
                for pid, p in zip(e["params_ids"], _plist(e["params_obj"])):
                    flat.append((p, e))
            else:
                flat.append((e["tensor_entry"], None))
        _caller_untouched(s, "")
        if not s["entries"]:
            return  # generator input: structure is judged by the harness, which knows what it yielded
        out = list(result)
        if len(out) != len(flat):
            rec("C11:group-count", f"{len(out)} output groups for {len(flat)} input parameters")
            return
        _rest(s, lr, weight_decay, independent, result, flat, out)

    def _caller_untouched(s, suffix):
        """the caller's group dicts, params lists and lr tensors are exactly what they were before the call (also judged on
        the error path, where no postcondition runs: state["snap"] / state["caller_untouched"] are used by run_case)"""
        for e in s["entries"]:
            if "dict" not in e:
                continue
            d = e["dict"]
            if list(d.keys()) != e["keys"]:
                rec("C11:caller-group-keys-changed" + suffix, f"{e['keys']} -> {list(d.keys())}")
            if d["params"] is not e["params_obj"] or [id(p) for p in _plist(d["params"])] != e["params_ids"]:
                rec("C11:caller-group-params-list-changed" + suffix, "the caller's params list was replaced or edited")
            for k, old in e["vals"].items():
                if k not in d:
                    continue
                if old[0] == "tensor":
                    _, t, ver, val, ptr = old
                    bump("sanitizer:tensor-lr-checked")
                    if d[k] is not t or t._version != ver or not bits_equal(t.detach(), val):
                        rec(f"C11:caller-tensor-modified:{k}" + suffix, f"group[{k!r}] tensor: version {ver}->{t._version}, value {val.item()!r}->{t.detach().item()!r}")
                elif d[k] != old[1]:
                    rec(f"C11:caller-group-value-changed:{k}" + suffix, f"{old[1]!r} -> {d[k]!r}")
        if s["lr"] is not None:
            t, ver, val, ptr = s["lr"]
            bump("sanitizer:tensor-lr-checked")
            if t._version != ver or not bits_equal(t.detach(), val):
                rec("C11:caller-tensor-modified:global-lr" + suffix, f"lr tensor: version {ver}->{t._version}, {val.item()!r}->{t.detach().item()!r}")

    state["snap"], state["caller_untouched"] = snap, _caller_untouched

    def _rest(s, lr, weight_decay, independent, result, flat, out):
        for g, (p, src) in zip(out, flat):
            if len(g["params"]) != 1 or g["params"][0] is not p:
                rec("C11:parameter-order-or-identity", "output groups are not the input parameters, one per group, in input order")
                return
            if src is not None:
                for k in src["keys"]:
                    if k in ("params", "lr", "weight_decay"):
                        continue
                    if k not in g:
                        rec("C11:extra-key-dropped", f"key {k!r} of the source group is missing")
                    elif src["vals"][k][0] == "value" and g[k] != src["vals"][k][1]:
                        rec("C11:extra-key-value-changed", f"{k!r}: {src['vals'][k][1]!r} -> {g[k]!r}")
                extra_out = set(g.keys()) - set(src["keys"]) - {"params", "lr", "weight_decay"}
                if extra_out:
                    rec("C11:unexpected-key-added", f"{sorted(extra_out)}")
        # tensor lrs: distinct storage per output group, none aliasing the caller's tensors
        caller_ptrs = set()
        if s["lr"] is not None:
            caller_ptrs.add(s["lr"][3])
        for e in s["entries"]:
            for k, old in e.get("vals", {}).items():
                if old[0] == "tensor":
                    caller_ptrs.add(old[4])
        seen = {}
        for i, (g, (p, src)) in enumerate(zip(out, flat)):
            v = g.get("lr")
            if isinstance(v, torch.Tensor):
                tagged = getattr(p, "mup_type", None) is not None
                ptr = v.untyped_storage().data_ptr()
                bump("alias:tensor-lr-pairs-checked")
                if tagged and ptr in caller_ptrs:
                    rec("C11:output-lr-aliases-caller-tensor", f"group {i}: scaled lr shares storage with the caller's lr tensor")
                if tagged and ptr in seen:
                    rec("C11:output-lr-tensors-aliased-between-groups", f"groups {seen[ptr]} and {i} share one lr tensor")
                if tagged:
                    seen[ptr] = i

    class RecordingIterMeta(type):
        pass

    orig = O.scaled_parameters
    dec = icontract.snapshot(snap, name="s")(icontract.ensure(post, error=Broken)(orig))
    state["installs"] = install(orig, dec)


class OneShotParams:
    """A group's "params" given as a true one-shot iterator - dict(params=model.base.parameters(), lr=...) is the torch.optim
    documentation's own idiom. A second pass over it yields nothing (as with a generator)."""

    def __init__(self, items):
        self.items = list(items)
        self._it = iter(self.items)

    def __iter__(self):
        return self

    def __next__(self):
        return next(self._it)


class RecordingIter:
    """A one-shot iterable (generator-like) that remembers what it is going to yield."""

    def __init__(self, items):
        self.items = list(items)
        self._used = False

    def __iter__(self):
        assert not self._used, "one-shot iterable consumed twice"
        self._used = True
        return iter(self.items)


def _flush(state, ctx) -> None:
    for k, v in state["counts"].items():
        ctx.count(k, v)
    state["counts"].clear()
    for v in state["viol"]:
        ctx.violation(v["key"], v["msg"], **v["detail"])
    state["viol"].clear()


def run_case(case: Dict[str, Any], ctx) -> None:
    import torch
    import unit_scaling as uu
    import unit_scaling.optim as O

    st = ctx.state
    ctx.count("evaluations")
    gen = torch.Generator().manual_seed(case["seed"])
    lr_kind = case["lr_kind"]

    def mk_lr(v):
        if lr_kind == "tensor32":
            return torch.tensor(v, dtype=torch.float32)
        if lr_kind == "tensor64":
            return torch.tensor(v, dtype=torch.float64)
        return float(v)

    global_lr = mk_lr(case["lr"])
    all_params, p0 = [], []
    built_groups = []
    shared_lr_tensor = mk_lr(case["lr"] * 0.5) if lr_kind != "float" else None
    for gspec in case["groups"]:
        ps = []
        for spec in gspec["params"]:
            data = torch.randn(spec["shape"], generator=gen, dtype=torch.float64)
            if case["untagged"] and len(all_params) == 1:
                p = torch.nn.Parameter(data)
            else:
                p = uu.Parameter(data, spec["tag"], spec["depth"])
            ps.append(p)
            all_params.append(p)
            p0.append(data.clone())
        g: Dict[str, Any] = {"params": ps}
        pf = rng_for(case["seed"], "pform", len(built_groups)).random()
        if pf < 0.15:
            g["params"] = tuple(ps)
        elif pf < 0.35 and len(ps) == 1:
            g["params"] = ps[0]  # torch.optim accepts ONE tensor here
            ctx.count("form:group-params-as-a-single-tensor")
        elif pf < 0.5:
            g["params"] = OneShotParams(ps)
            ctx.count("form:group-params-as-a-one-shot-iterator")
        if gspec["lr"] is not None:
            g["lr"] = shared_lr_tensor if (shared_lr_tensor is not None and case["share_tensor_lr"]) else mk_lr(gspec["lr"])
        if gspec["wd"] is not None:
            g["weight_decay"] = gspec["wd"]
        g.update(gspec["extra"])
        built_groups.append(g)
    container = case["container"]
    if container == "groups":
        arg: Any = built_groups
    elif container == "list":
        arg = list(all_params)
    else:
        arg = RecordingIter(all_params)
    untagged_present = case["untagged"] and len(all_params) > 1
    allow = case["allow"]
    expect_error = untagged_present and not allow
    opt_name = case["opt"]
    kw: Dict[str, Any] = {"weight_decay": case["wd"], "independent_weight_decay": case["independent"], "allow_non_unit_scaling_params": allow}

    def src_of(i):
        k = 0
        for g in built_groups:
            for _ in ([g["params"]] if isinstance(g["params"], torch.Tensor) else g["params"].items if isinstance(g["params"], OneShotParams) else g["params"]):
                if k == i:
                    return g
                k += 1
        raise IndexError

    def eff(i, key, default):
        if container == "groups":
            return src_of(i).get(key, default)
        return default

    before = st["snap"](arg, global_lr)
    try:
        if opt_name == "direct":
            st["direct"][0] = True
            try:
                out = O.scaled_parameters(arg, O.lr_scale_func_adam, lr=global_lr, **kw)
            finally:
                st["direct"][0] = False
            opt = None
        else:
            okw = dict(kw)
            if opt_name == "SGD":
                okw["momentum"] = case["momentum"]
                cls = O.SGD
            else:
                cls = O.Adam if opt_name == "Adam" else O.AdamW
                okw["foreach"] = False
            # the optimizer-level options in torch.optim's own POSITIONAL spelling - SGD(params, lr, momentum),
            # Adam(params, lr, betas) - which the constructors accept through *args
            pos_opts = case["seed"] % 4 == 0
            if pos_opts and opt_name == "SGD":
                okw.pop("momentum")
                opt = cls(arg, global_lr, case["momentum"], **okw)
                ctx.count("form:optimizer-options-positional")
            elif pos_opts:
                opt = cls(arg, global_lr, (0.85, 0.95), **okw)
                ctx.count("form:optimizer-options-positional")
            else:
                opt = cls(arg, lr=global_lr, **okw)
            out = opt.param_groups
            if pos_opts and not (case["untagged"] and not case["allow"]):
                want_opt = ("momentum", case["momentum"]) if opt_name == "SGD" else ("betas", (0.85, 0.95))
                ctx.count("options:optimizer-level-option-compared", len(out))
                for gi, g_ in enumerate(out):
                    src_has = container == "groups" and want_opt[0] in src_of(gi)
                    if not src_has and g_.get(want_opt[0]) != want_opt[1]:
                        ctx.violation(f"C11:optimizer-level-option-given-positionally-is-lost:{opt_name}:{want_opt[0]}",
                                      f"{opt_name}(params, lr, {want_opt[1]!r}): group {gi} has {want_opt[0]}={g_.get(want_opt[0])!r}", container=container)
                        break
        err = None
    except Exception as e:
        err = e
    if err is not None:
        # a refusal must not leave the caller's groups / lr tensors altered either (no postcondition runs after a raise)
        st["caller_untouched"](before, ":after-a-refused-call")
        ctx.count("sanitizer:caller-state-compared-after-a-raise")
    _flush(st, ctx)
    if expect_error:
        if err is None:
            ctx.violation("C11:untagged-parameter-accepted", "no error although allow_non_unit_scaling_params=False")
        return
    if err is not None:
        ctx.violation("C11:raises:" + exc_key(err), repr(err), case={k: v for k, v in case.items() if k != "groups"})
        return
    # structure for every container kind (the contract cannot peek into one-shot iterables)
    if len(out) != len(all_params) or any(len(g["params"]) != 1 or g["params"][0] is not p for g, p in zip(out, all_params)):
        ctx.violation("C11:parameter-order-or-identity", "output groups are not the input parameters, one per group, in input order",
                      container=container)
        return
    # lr x weight_decay == requested decay
    tol = 2e-6 if lr_kind == "tensor32" else 1e-12
    for i, g in enumerate(out):
        wd_req = eff(i, "weight_decay", case["wd"])
        ctx.count("decay:lr-times-wd-checked")
        if case["independent"]:
            got = float(g["lr"]) * float(g["weight_decay"])
            if not (rel_close(got, wd_req, tol) if wd_req else got == 0.0):
                ctx.violation("C11:lr-times-weight-decay-not-requested-decay", f"group {i}: lr {float(g['lr'])!r} x wd {g['weight_decay']!r} = {got!r} != {wd_req!r}",
                              lr_kind=lr_kind, container=container)
        elif float(g["weight_decay"]) != float(wd_req):
            ctx.violation("C11:weight-decay-not-passed-through", f"group {i}: {g['weight_decay']!r} != {wd_req!r}")
    # real optimizer steps with zero gradients
    if opt is not None and opt_name in ("SGD", "AdamW") and case["independent"]:
        for p in all_params:
            p.grad = torch.zeros_like(p)
        k = case["steps"]
        for _ in range(k):
            opt.step()
        for i, (p, d0) in enumerate(zip(all_params, p0)):
            wd_req = eff(i, "weight_decay", case["wd"])
            ctx.count("decay:steps-checked")
            if opt_name == "SGD" and case["momentum"]:
                # coupled decay enters the momentum buffer: p_k follows a 2-term recurrence
                b, pk, mu = None, 1.0, case["momentum"]
                for _ in range(k):
                    gcoef = wd_req * pk
                    b = gcoef if b is None else mu * b + gcoef
                    pk = pk - b
                want = pk
            else:
                want = (1 - wd_req) ** k
            exp = d0 * want
            err_ = (p.detach() - exp).abs().max().item() if p.numel() else 0.0
            # rounding error of the update is relative to the OPERANDS (|p0|), not to the result: with momentum the decay terms can
            # cancel (wd 0.4, momentum 0.9, 2 steps: expected factor exactly 0)
            scale = d0.abs().max().item() if p.numel() else 1.0
            if err_ > max(1e-12 if lr_kind != "tensor32" else 5e-6, 0) * k * max(scale, 1e-300) + 0.0:
                ctx.violation(f"C11:zero-gradient-step-is-not-pure-decay:{opt_name}", f"param {i} after {k} steps: max err {err_:.3e} (expected factor {want!r})",
                              wd=wd_req, lr=float(out[i]["lr"]), lr_kind=lr_kind, tag=getattr(p, "mup_type", None))
    n_par = len(all_params)
    if n_par >= 2 and (any(g["extra"] for g in case["groups"]) or lr_kind != "float" or case["wd"] > 0):
        layout = [len(g["params"]) for g in case["groups"]]
        ctx.nontrivial(f"{container}|{layout}|{lr_kind}|{opt_name}|ind={case['independent']}|wd={case['wd'] > 0}|own={[g['lr'] is not None for g in case['groups']]}"
                       f"|share={case['share_tensor_lr']}|extra={[sorted(g['extra']) for g in case['groups']]}")
