"""C06 - residual split/add: normalised mix, delayed branch scaling, true input gradient."""

from __future__ import annotations

import math
from typing import Any, Dict, List

from ..common import derive_seed, exc_key, loguniform, rng_for
from ..opcheck import rel_close

PROPERTY = "C06"
LEVEL = "exploration"
RULE = ("each case is a stack of 1-8 sequential/nested residual layers with tau log-uniform in [1e-3,1e3] (and exactly 1), tensor "
        "rank 1-4, branch functions drawn from {linear map, tanh, gelu o linear, U.linear, U.gelu, compositions}; executed in "
        "float64 three ways: residual_split/f/residual_add, residual_apply, and the closed form (x + tau f(x))/sqrt(1+tau^2) "
        "built from plain torch ops, plus tensor hooks on the branch output and the scale spy; branch kinds include constant, detached "
        "and IN-PLACE functions, single-element tensors, and half of the cases first use the same taus on bfloat16/float32 tensors "
        "(history). Non-trivial = tau != 1 or depth "
        ">= 2; distinct = (structure, branch kinds, rank, tau bucket). tau may be a Python int; a fifth of the inputs are non-contiguous, a tenth of the upstream gradients expanded (stride 0). Two thirds of the cases re-evaluate split/f/add and residual_apply under torch.no_grad() / inference_mode (a quarter do so BEFORE the first training-mode call); one branch kind computes in float32 on the float64 stream (result dtype must follow ordinary type promotion).")
ASSUMPTIONS = ["PyTorch autograd of the closed form is the true derivative", "gradcheck finite differences"]
IMPORTS = ["unit_scaling.functional", "unit_scaling.scale"]
REQUIRED_MONITORS = ["closed-form:outputs-compared", "closed-form:input-grads-compared", "hook:branch-output-grads", "spy:weights-checked",
                     "apply:bit-compared", "gradcheck:run"]
REQUIRED_REACH = {"functional.py": ["residual_split", "residual_add", "residual_apply"]}
MIN_NONTRIVIAL = {"quick": 800, "thorough": 50000}
BRANCHES = ["linear", "tanh", "gelu_linear", "u_linear", "u_gelu", "sin_scale", "u_silu_linear", "constant", "detached", "inplace_relu_linear", "inplace_mul", "lowp_tanh"]


def gen_cases(tier: str, seed: int) -> List[Dict[str, Any]]:
    n = 3000 if tier == "quick" else 240000
    cases = []
    for i in range(n):
        rng = rng_for(seed, PROPERTY, i)
        depth = rng.choice([1, 1, 2, 3, 4, 8]) if rng.random() < 0.8 else rng.randint(1, 8)
        layers = []
        for _ in range(depth):
            r = rng.random()
            tau = 1.0 if r < 0.1 else (rng.choice([1e-3, 1e3]) if r < 0.15 else loguniform(rng, 1e-3, 1e3))
            if r > 0.95:
                tau = rng.choice([1, 2, 3, 10, 1000])  # a Python int is a valid tau
            layers.append({"tau": tau, "branch": rng.choice(BRANCHES)})
        rank = rng.randint(1, 4)
        shape = [rng.choice([1, 2, 3, 5]) for _ in range(rank - 1)] + [rng.choice([2, 3, 5, 7])]
        if rng.random() < 0.12:
            # single-element tensors ("arbitrary tensor shapes"): rank 0, (1,), (1,1) ... - elementwise branches only
            shape = [1] * rng.randint(0, 3)
            for l in layers:
                l["branch"] = rng.choice(["tanh", "sin_scale", "u_gelu"])
        nested_ = depth >= 2 and rng.random() < 0.4
        if nested_:
            for l in layers:  # (a float32 branch output would be fed to the inner layers' float64 weights: sequential stacks only)
                if l["branch"] == "lowp_tanh":
                    l["branch"] = "tanh"
        cases.append({"layers": layers, "nested": nested_, "shape": shape,
                      "gradcheck": rng.random() < 0.15, "seed": derive_seed(seed, PROPERTY, "s", i) % (2**31)})
    return cases


def make_branch(kind: str, d: int, gen, torch, U):
    import torch.nn.functional as F

    W = torch.randn(d, d, generator=gen, dtype=torch.float64) / math.sqrt(d)
    if kind == "inplace_relu_linear":
        # a branch that works IN PLACE on the tensor it is handed (nn.ReLU(inplace=True) as first op): the skip path and the
        # caller's x must not see it
        f_ = lambda t: F.relu(t, inplace=True) @ W.T
        f_.pure = lambda t: F.relu(t) @ W.T
        return f_
    if kind == "inplace_mul":
        f_ = lambda t: torch.tanh(t.mul_(0.5))
        f_.pure = lambda t: torch.tanh(t * 0.5)
        return f_
    if kind == "constant":
        c = torch.randn(d, generator=gen, dtype=torch.float64).requires_grad_(True)
        return lambda t: c.expand(t.shape) * 1.0  # ignores its input: only the skip path carries gradient to x
    if kind == "detached":
        return lambda t: torch.tanh(t.detach() @ W.T)
    if kind == "linear":
        return lambda t: t @ W.T
    if kind == "tanh":
        return torch.tanh
    if kind == "lowp_tanh":
        # a branch computed in LOWER precision than the residual stream (mixed-precision layout): the sum is formed at the
        # stream's precision by ordinary type promotion
        return lambda t: torch.tanh(t.float())
    if kind == "gelu_linear":
        return lambda t: F.gelu(t @ W.T)
    if kind == "u_linear":
        return lambda t: U.linear(t, W, None, constraint="gmean")
    if kind == "u_gelu":
        return lambda t: U.gelu(t, mult=2.0)
    if kind == "sin_scale":
        return lambda t: torch.sin(3.0 * t) * 0.7
    if kind == "u_silu_linear":
        return lambda t: U.silu(U.linear(t, W, None))
    raise AssertionError(kind)


def run_case(case: Dict[str, Any], ctx) -> None:
    import torch
    import unit_scaling.functional as U
    from ..instruments import ScaleSpy, bits_equal

    ctx.count("evaluations")
    gen = torch.Generator().manual_seed(case["seed"])
    shape = case["shape"]
    d = shape[-1] if shape else 1
    x0 = torch.randn(shape, generator=gen, dtype=torch.float64)
    up = torch.randn(shape, generator=gen, dtype=torch.float64)
    if case["seed"] % 5 == 0 and len(shape) >= 1:
        from ..optable import relayout
        x0 = relayout(x0, "noncontig")  # same values through other strides
        if case["seed"] % 10 == 0:
            up = up[..., :1].expand(up.shape)  # the upstream gradient of y.sum(-1): stride 0
        ctx.count("form:non-contiguous-input")
    layers = case["layers"]
    fs = [make_branch(l["branch"], d, gen, torch, U) for l in layers]
    taus = [l["tau"] for l in layers]
    nested = case["nested"]
    hooks: List[Any] = []  # (layer index, grad at branch output, grad at branch input)

    def explicit(x, record):
        def layer(i, t, inner=None):
            r, s = U.residual_split(t, taus[i])
            if record and r.requires_grad:
                r.register_hook(lambda g, i=i: hooks.append(("in", i, g.clone())) if g is not None else None)
            b = fs[i](r)
            if inner is not None:
                b = inner(b)
            if record and b.requires_grad:
                b.register_hook(lambda g, i=i: hooks.append(("out", i, g.clone())) if g is not None else None)
            y = U.residual_add(b, s, taus[i])
            if record and y.requires_grad:
                y.register_hook(lambda g, i=i: hooks.append(("sum", i, g.clone())) if g is not None else None)
            return y
        if not nested:
            t = x
            for i in range(len(layers)):
                t = layer(i, t)
            return t
        # nested: layer 0's branch contains layer 1, whose branch contains layer 2, ...
        def build(i):
            if i == len(layers) - 1:
                return lambda t: layer(i, t)
            return lambda t: layer(i, t, inner=build(i + 1))
        return build(0)(x)

    def applied(x):
        if not nested:
            t = x
            for i in range(len(layers)):
                t = U.residual_apply(fs[i], t, taus[i])
            return t
        def build(i):
            if i == len(layers) - 1:
                return lambda t: U.residual_apply(fs[i], t, taus[i])
            nxt = build(i + 1)
            return lambda t: U.residual_apply(lambda r: nxt(fs[i](r)), t, taus[i])
        return build(0)(x)

    def closed(x):
        def mix(i, t, f):
            f = getattr(f, "pure", f)  # out-of-place twin of an in-place branch
            return (t + taus[i] * f(t)) / math.sqrt(1 + taus[i] ** 2)
        if not nested:
            t = x
            for i in range(len(layers)):
                t = mix(i, t, fs[i])
            return t
        def build(i):
            if i == len(layers) - 1:
                return lambda t: mix(i, t, fs[i])
            nxt = build(i + 1)
            return lambda t: mix(i, t, lambda r: nxt(getattr(fs[i], "pure", fs[i])(r)))
        return build(0)(x)

    key = "C06:" + ("nested" if nested else "sequential")
    if case["seed"] % 2 == 0:
        # history: the same taus used first on lower-precision tensors in this process (results must not depend on it)
        try:
            for lp in (torch.bfloat16, torch.float32):
                xl = x0.to(lp).requires_grad_(True)
                t_ = xl
                for tau in taus:
                    r_, s_ = U.residual_split(t_, tau)
                    t_ = U.residual_add(torch.tanh(r_), s_, tau)
                t_.sum().backward()
            ctx.count("history:primed-in-lower-precision")
        except Exception as e:
            ctx.violation(key + ":raises:" + exc_key(e), repr(e), case=case)
            return
    if case["seed"] % 4 == 1:
        try:  # history: the same layers evaluated under no_grad BEFORE the first training-mode call in this case
            with torch.no_grad():
                explicit(x0.clone(), record=False)
                applied(x0.clone())
            ctx.count("history:no_grad-pass-first")
        except Exception as e:
            ctx.violation(key + ":raises-under-no_grad:" + exc_key(e), repr(e), case=case)
            return
    try:
        xa = x0.clone().requires_grad_(True)
        with ScaleSpy() as spy:
            ya = explicit(xa, record=True)
        ya.backward(up)
        xb = x0.clone().requires_grad_(True)
        yb = applied(xb)
        yb.backward(up)
    except Exception as e:
        ctx.violation(key + ":raises:" + exc_key(e), repr(e), case=case)
        return
    if not torch.equal(xa.detach(), x0) or not torch.equal(xb.detach(), x0):
        ctx.violation(key + ":caller-tensor-modified-by-the-branch", "x changed although only the branch's own input was modified in place", case=case)
    xc = x0.clone().requires_grad_(True)
    # The unit-scaled branch functions inside f carry their own (non-true) gradient scales; the closed form is
    # differentiated with the same f, so any difference is attributable to the residual primitives alone.
    yc = closed(xc)
    yc.backward(up)
    scale = max(yc.detach().abs().max().item(), 1e-300)
    ctx.count("closed-form:outputs-compared")
    if ya.dtype != yc.dtype or yb.dtype != yc.dtype:
        ctx.violation(key + ":result-dtype-differs-from-closed-form", f"split/f/add {ya.dtype}, residual_apply {yb.dtype}, (x + tau*f(x))/sqrt(1+tau^2) {yc.dtype}", case=case)
        return
    mixed = any(l["branch"] == "lowp_tanh" for l in layers)  # a float32 branch term is rounded to float32 wherever it is scaled
    # rounding differences between the two evaluation orders are amplified by every later branch: by tau * |f'| at most
    amp = 1.0
    for t_ in taus:
        amp *= max(1.0, min(float(t_), 1e3) ** 0.5)
    amp = min(amp, 1e4)
    err = (ya.detach() - yc.detach()).abs().max().item() / scale
    if err > (1e-12 * amp if not mixed else 4e-7) * len(layers) * 8:
        ctx.violation(key + ":output-differs-from-closed-form", f"rel err {err:.2e}", case=case)
    gscale = max(xc.grad.abs().max().item(), 1e-300)
    gerr = (xa.grad - xc.grad).abs().max().item() / gscale
    ctx.count("closed-form:input-grads-compared")
    if gerr > (1e-11 * amp if not mixed else 4e-7) * len(layers) * 8:
        ctx.violation(key + ":input-gradient-is-not-derivative-of-closed-form", f"rel err {gerr:.2e}", case=case)
    # ---- the same layers evaluated WITHOUT autograd recording (no_grad / inference_mode): same forward values ------------
    if case["seed"] % 3 != 2:
        mode = torch.no_grad if case["seed"] % 3 == 0 else torch.inference_mode
        try:
            with mode():
                ya_n = explicit(x0.clone(), record=False)
                yb_n = applied(x0.clone())
        except Exception as e:
            ctx.violation(key + f":raises-under-{mode.__name__}:" + exc_key(e), repr(e), case=case)
            return
        ctx.count("mode:" + mode.__name__ + "-compared")
        for nm, yn in (("split-f-add", ya_n), ("residual_apply", yb_n)):
            errn = (yn - yc.detach()).abs().max().item() / scale
            if errn > (1e-12 * amp if not mixed else 4e-7) * len(layers) * 8:
                ctx.violation(key + f":{nm}-differs-from-closed-form-under-{mode.__name__}", f"rel err {errn:.2e}", case=case)
                break
    # residual_apply identical to the explicit sequence
    ctx.count("apply:bit-compared")
    if not bits_equal(ya.detach(), yb.detach()) or not bits_equal(xa.grad, xb.grad):
        ctx.violation(key + ":residual_apply-differs-from-split-f-add", "outputs or gradients are not bit-identical", case=case)
    # spy: two backward-only weights at the split, two forward-only weights at the add, squares sum to 1
    fac = spy.factors()
    res_calls = []
    for (f, b) in fac:
        res_calls.append((f, b))
    # reconstruct per layer from the expected values
    for i, tau in enumerate(taus):
        dnm = math.sqrt(1 + tau * tau)
        wt, ws = tau / dnm, 1 / dnm
        ctx.count("spy:weights-checked")
        want = [(1.0, wt), (1.0, ws), (wt, 1.0), (ws, 1.0)]
        for w in want:
            if not any(rel_close(w[0], f, 1e-14) and rel_close(w[1], b, 1e-14) for f, b in fac):
                ctx.violation(key + ":mixing-weight-missing-from-primitive-trace", f"layer {i} tau={tau}: expected (fwd,bwd)={w} among scale calls",
                              trace=fac[:12])
                break
        if abs(wt * wt + ws * ws - 1) > 1e-15:
            ctx.violation(key + ":weights-squares-do-not-sum-to-one", f"tau={tau}")
    # hooks: gradient at the branch output == gradient of the sum (unattenuated inside the branch)
    sums = {i: g for k, i, g in hooks if k == "sum"}
    outs = {i: g for k, i, g in hooks if k == "out"}
    for i, g in outs.items():
        if i in sums:
            ctx.count("hook:branch-output-grads")
            if g.dtype != sums[i].dtype and float((g.double() - sums[i].double()).abs().max()) <= 2.0**-22 * max(float(sums[i].abs().max()), 1e-300):
                ctx.count("hook:branch-output-grad-equal-up-to-its-lower-dtype")
                continue
            if not bits_equal(g, sums[i]):
                rel = (g - sums[i]).abs().max().item() / max(sums[i].abs().max().item(), 1e-300)
                ctx.violation(key + ":gradient-attenuated-inside-branch", f"layer {i}: branch-output gradient differs from upstream gradient (rel {rel:.2e}, tau={taus[i]})",
                              case=case)
    if case["gradcheck"] and all(l["branch"] in ("linear", "tanh", "gelu_linear", "sin_scale", "constant") for l in layers):
        ctx.count("gradcheck:run")
        xg = x0.clone().requires_grad_(True)
        try:
            ok = torch.autograd.gradcheck(applied, (xg,), eps=1e-6, atol=1e-7, rtol=1e-5, raise_exception=False, fast_mode=True)
        except Exception as e:
            ok = False
        if not ok:
            ctx.violation(key + ":gradcheck-residual_apply", "analytical gradient disagrees with finite differences", case=case)
    elif case["gradcheck"]:
        ctx.count("gradcheck:skipped-non-true-gradient-branch")
    if len(layers) >= 2 or taus[0] != 1.0:
        tb = [int(round(math.log10(t))) for t in taus]
        ctx.nontrivial(f"{'N' if nested else 'S'}|{[l['branch'] for l in layers]}|{len(shape)}|{tb}")
