"""C19 - graph pruning removes exactly the intended nodes and keeps the graph connected."""

from __future__ import annotations

import copy
from math import isclose
from typing import Any, Dict, List, Optional

from ..common import derive_seed, exc_key, rng_for

PROPERTY = "C19"
LEVEL = "exploration"
RULE = ("tracked graphs of seeded programs (as C18, always with list ops cat/stack/rotate-half written with a list or a tuple, positionally or as tensors=..., keyword tensor arguments, integer index "
        "tensors, views / negations, optionally several outputs and a final variable literally named 'output'), after a real forward+"
        "backward run; each graph is given to prune_non_float_tensors, prune_same_scale_tensors (rtol in {2^-16, 2^-8, 2^-2}) and "
        "prune_selected_nodes (random target sets). Oracle: an independent model (networkx) of the documented removal sets with a "
        "three-valued expected set (don't-care where the statement leaves the verdict open), lint + dangling-edge scan, reachability "
        "of surviving consumers from the nearest surviving producer, and a before/after structural snapshot of the input graph. "
        "Non-trivial = at least one node is expected to be removed; distinct = (emitted source, helper, rtol / target set). Programs contain non-float nodes that cannot be bypassed (a mask from two float tensors) and an index computed from a float tensor handed over by keyword.")
ASSUMPTIONS = ["node.meta written by track_scales (outputs_float_tensor, metrics) is as established by C18"]
IMPORTS = ["unit_scaling.transforms._track_scales", "unit_scaling.transforms"]
REQUIRED_MONITORS = ["graphs:tracked", "prune:non-float-calls", "prune:same-scale-calls", "prune:selected-calls", "removed:compared-with-model",
                     "reachability:paths-checked", "input-graph:snapshot-compared"]
REQUIRED_REACH = {"transforms/_track_scales.py": ["_prune", "prune_non_float_tensors", "prune_same_scale_tensors", "prune_selected_nodes",
                                                  "_metrics_same_scale", "_directions_same_scale", "_filter_float_tensors"]}
MIN_NONTRIVIAL = {"quick": 150, "thorough": 5000}
FORMS = ["embedding", "nn_gelu", "bias_kw"]


def gen_cases(tier: str, seed: int) -> List[Dict[str, Any]]:
    n = 320 if tier == "quick" else 15000
    cases = []
    for i in range(n):
        rng = rng_for(seed, PROPERTY, "prof", i)
        cases.append({"seed": derive_seed(seed, PROPERTY, i) % (2**31), "backward": rng.random() < 0.8, "name_output": rng.random() < 0.3,
                      "profile": {"dtype": "float32", "max_ops": rng.choice([3, 6, 10, 14]), "residual": rng.choice([0, 1, 2]),
                                  "forms": [f for f in FORMS if rng.random() < 0.5], "loss": rng.random() < 0.2, "extras": True}})
    return cases


def snapshot(graph) -> List[Any]:
    """Structure of a graph by names (independent of object identity)."""
    from torch.fx.node import map_arg, Node

    out = []
    for n in graph.nodes:
        args = map_arg(n.args, lambda a: "%" + a.name)
        kwargs = map_arg(n.kwargs, lambda a: "%" + a.name)
        out.append((n.name, n.op, str(n.target), repr(args), repr(kwargs)))
    return out


def float_inputs(n) -> List[Any]:
    return [a for a in n.all_input_nodes if a.meta.get("outputs_float_tensor", False)]


def top_level_float_args(n) -> List[Any]:
    from torch.fx.node import Node

    return [a for a in n.args if isinstance(a, Node) and a.meta.get("outputs_float_tensor", False)]


def same_scale(a, b, rtol: float) -> Optional[bool]:
    """None = the statement leaves it open (exactly one side lacks backward metrics)."""
    ma, mb = a.meta["metrics"], b.meta["metrics"]
    f = isclose(ma.fwd.mean_abs, mb.fwd.mean_abs, rel_tol=rtol)
    if ma.bwd is None and mb.bwd is None:
        return f
    if ma.bwd is None or mb.bwd is None:
        return None
    return f and isclose(ma.bwd.mean_abs, mb.bwd.mean_abs, rel_tol=rtol)


def run_case(case: Dict[str, Any], ctx) -> None:
    import networkx as nx
    import torch
    import torch._dynamo
    from unit_scaling.transforms import prune_non_float_tensors, prune_same_scale_tensors, prune_selected_nodes, track_scales
    from .. import progs

    ctx.count("evaluations")
    rng = rng_for(case["seed"], "prog")
    prog = progs.gen_program(rng, case["profile"])
    if case["name_output"]:
        last = prog["outputs"][0]
        for o in prog["ops"]:
            if o["out"] == last:
                o["out"] = "output"
            o["in"] = ["output" if x == last else x for x in o["in"]]
        prog["outputs"] = ["output" if x == last else x for x in prog["outputs"]]
    m, src = progs.build_module(prog, case["seed"])
    ctx.sample({"emitted_source": src})
    inputs = progs.make_inputs(prog, case["seed"] + 5)
    torch._dynamo.utils.counters.clear()
    try:
        tm = track_scales(m)
        out = tm(*[t.clone() for t in inputs])
        outs = list(out) if isinstance(out, (tuple, list)) else [out]
        if case["backward"]:
            g = torch.Generator().manual_seed(case["seed"] + 9)
            live = [y for y in outs if y.requires_grad]
            torch.autograd.backward(live, [torch.randn(y.shape, generator=g) for y in live])
        graph = tm.scales_graph()
    except Exception as e:
        ctx.skip("track_scales run failed (C18's business)")
        ctx.count("excluded:tracking-failed")
        return
    if sum(torch._dynamo.utils.counters["graph_break"].values()):
        ctx.count("excluded:graph-break")
        ctx.skip("graph break")
        return
    ctx.count("graphs:tracked")
    names = [n.name for n in graph.nodes]
    by = {n.name: n for n in graph.nodes}
    before = snapshot(graph)
    feats = []
    if case["name_output"]:
        feats.append("variable-named-output")
    from torch.fx.node import Node
    if any(isinstance(a, (list, tuple)) for n in graph.nodes if n.op != "output" for a in n.args):
        feats.append("list-arguments")
    feat = "+".join(feats)
    nontrivial = False

    def check_wellformed(g2, helper: str) -> bool:
        try:
            g2.lint()
        except Exception as e:
            ctx.violation(f"C19:{helper}:result-fails-lint:{exc_key(e)}", repr(e), source=src)
            return False
        inside = set(g2.nodes)
        for n in g2.nodes:
            for a in n.all_input_nodes:
                if a not in inside:
                    ctx.violation(f"C19:{helper}:dangling-argument", f"{n.name} refers to {a.name}, which is not in the graph", source=src)
                    return False
        return True

    def compare(g2, helper: str, must_remove: set, dont_care: set, detail: str) -> None:
        nonlocal nontrivial
        ctx.count("removed:compared-with-model")
        got = [n.name for n in g2.nodes]
        got_set = set(got)
        extra = [x for x in got if x not in by]
        if extra:
            ctx.violation(f"C19:{helper}:new-nodes-appeared", f"{extra[:5]}", source=src)
            return
        wrongly_removed = [x for x in names if x not in got_set and x not in must_remove and x not in dont_care]
        wrongly_kept = [x for x in names if x in got_set and x in must_remove]
        if wrongly_removed:
            ctx.violation(f"C19:{helper}:removed-a-node-it-should-keep", f"{wrongly_removed[:5]} ({detail})", source=src)
        if wrongly_kept:
            ctx.violation(f"C19:{helper}:kept-a-node-it-should-remove", f"{wrongly_kept[:5]} ({detail})", source=src)
        order = [x for x in names if x in got_set]
        if order != got:
            ctx.violation(f"C19:{helper}:node-order-changed", "surviving nodes are not in the original relative order", source=src)
        if must_remove:
            nontrivial = True

    def reach_check(g2, helper: str, removed_nodes: List[str]) -> None:
        G2 = nx.DiGraph()
        for n in g2.nodes:
            G2.add_node(n.name)
            for a in n.all_input_nodes:
                G2.add_edge(a.name, n.name)
        got = set(G2.nodes)

        def surviving_producer(r):
            seen = set()
            cur = r
            while cur not in got or cur == r:
                fi = float_inputs(by[cur])
                if len(fi) != 1 or cur in seen:
                    return None
                seen.add(cur)
                cur = fi[0].name
            return cur

        def surviving_consumers(r, acc, seen):
            for u in by[r].users:
                if u.name in got:
                    acc.add(u.name)
                elif u.name not in seen:
                    seen.add(u.name)
                    if len(float_inputs(u)) == 1:
                        surviving_consumers(u.name, acc, seen)
            return acc

        for r in removed_nodes:
            if len(float_inputs(by[r])) != 1:
                continue
            p = surviving_producer(r)
            if p is None:
                continue
            for c in surviving_consumers(r, set(), set()):
                ctx.count("reachability:paths-checked")
                if not nx.has_path(G2, p, c):
                    where = _arg_position(by[c] if c in by else None, r)
                    ctx.violation(f"C19:{helper}:consumer-disconnected-from-producer:{where}",
                                  f"{r} was removed; its consumer {c} is no longer reachable from {p}", source=src)
                    return

    # ---------------------------------------------------------------- non-float helper
    ctx.count("prune:non-float-calls")
    try:
        g2 = prune_non_float_tensors(graph)
    except Exception as e:
        ctx.violation(f"C19:prune_non_float_tensors:raises:{exc_key(e)}" + (f":{feat}" if feat else ""), repr(e), source=src)
        g2 = None
    if g2 is not None and check_wellformed(g2, "prune_non_float_tensors"):
        must = {n.name for n in graph.nodes if n.op != "output" and not n.meta.get("outputs_float_tensor", False)}
        compare(g2, "prune_non_float_tensors", must, set(), "nodes not producing float tensors")
        reach_check(g2, "prune_non_float_tensors", [x for x in names if x in must])
    ctx.count("input-graph:snapshot-compared")
    if snapshot(graph) != before:
        ctx.violation("C19:prune_non_float_tensors:input-graph-modified", "the graph passed in was changed", source=src)
        return
    # ---------------------------------------------------------------- same-scale helper
    for rtol in (2.0**-16, 2.0**-8, 2.0**-2):
        ctx.count("prune:same-scale-calls")
        try:
            g3 = prune_same_scale_tensors(graph, rtol)
        except Exception as e:
            ctx.violation(f"C19:prune_same_scale_tensors:raises:{exc_key(e)}" + (f":{feat}" if feat else ""), repr(e), source=src, rtol=rtol)
            break
        if not check_wellformed(g3, "prune_same_scale_tensors"):
            break
        must, dc = set(), set()
        removed_so_far: set = set()
        for n in graph.nodes:
            if n.op == "output" or not n.meta.get("outputs_float_tensor", False) or "metrics" not in n.meta:
                continue
            fi = float_inputs(n)
            tl = top_level_float_args(n)
            if len(fi) != 1 and len(tl) != 1:
                continue
            if len(fi) != 1 or len(tl) != 1 or fi[0] is not tl[0]:
                dc.add(n.name)  # "single float-tensor input" depends on how nested / keyword arguments are counted: left open
                continue
            a = fi[0]
            if "metrics" not in a.meta:
                dc.add(n.name)
                continue
            # The helper compares with whatever the node's input is at that moment: the direct input, or - if that was pruned a
            # moment ago - the nearest surviving ancestor. Where an ancestor's own fate is open (don't-care), both readings are
            # possible: the verdict is only fixed when every candidate reference gives the same answer.
            cands = [a]
            b = a
            while b.name in removed_so_far or b.name in dc:
                fb = float_inputs(b)
                if len(fb) != 1 or "metrics" not in fb[0].meta:
                    break
                b = fb[0]
                cands.append(b)
            verdicts = {same_scale(n, c, rtol) for c in cands}
            if len(verdicts) != 1 or None in verdicts:
                dc.add(n.name)
            elif True in verdicts:
                must.add(n.name)
                removed_so_far.add(n.name)
        compare(g3, "prune_same_scale_tensors", must, dc, f"rtol=2^{int(round(__import__('math').log2(rtol)))}")
        got3 = {n.name for n in g3.nodes}
        reach_check(g3, "prune_same_scale_tensors", [x for x in names if x not in got3])
        if snapshot(graph) != before:
            ctx.violation("C19:prune_same_scale_tensors:input-graph-modified", "the graph passed in was changed", source=src)
            return
    # ---------------------------------------------------------------- selective pruning (works in place: on a copy)
    targets_all = sorted({str(n.target) for n in graph.nodes if n.op in ("call_function", "call_method")})
    tmap = {str(n.target): n.target for n in graph.nodes if n.op in ("call_function", "call_method")}
    for trial in range(2):
        if not targets_all:
            break
        k = rng.randint(1, min(3, len(targets_all)))
        chosen = rng.sample(targets_all, k)
        targets = [tmap[c] for c in chosen]
        gcopy = copy.deepcopy(graph)
        ctx.count("prune:selected-calls")
        try:
            g4 = prune_selected_nodes(gcopy, targets)
        except Exception as e:
            ctx.violation(f"C19:prune_selected_nodes:raises:{exc_key(e)}" + (f":{feat}" if feat else ""), repr(e), source=src, targets=chosen)
            continue
        if not check_wellformed(g4, "prune_selected_nodes"):
            continue
        must = {n.name for n in graph.nodes if n.op != "output" and n.target in targets}
        compare(g4, "prune_selected_nodes", must, set(), f"targets {chosen}")
        # edges through removed nodes are cut, not bypassed: a consumer must not have gained an edge to the removed node's inputs
        by4 = {n.name: n for n in g4.nodes}
        for r in must:
            for u in by[r].users:
                if u.name in by4:
                    orig_inputs = {a.name for a in u.all_input_nodes} - {r}
                    new_inputs = {a.name for a in by4[u.name].all_input_nodes}
                    if not new_inputs <= orig_inputs | {x for x in new_inputs if x in must}:
                        ctx.violation("C19:prune_selected_nodes:edge-not-cut", f"consumer {u.name} of removed {r} gained inputs {sorted(new_inputs - orig_inputs)}", source=src)
    if nontrivial:
        ctx.nontrivial(src + f"|bwd={case['backward']}")


def _arg_position(consumer, removed_name: str) -> str:
    from torch.fx.node import Node

    if consumer is None:
        return "unknown"
    for a in consumer.args:
        if isinstance(a, Node) and a.name == removed_name:
            return "positional-argument"
        if isinstance(a, (list, tuple)) and any(isinstance(x, Node) and x.name == removed_name for x in a):
            return "nested-in-list-argument"
    for v in consumer.kwargs.values():
        if isinstance(v, Node) and v.name == removed_name:
            return "keyword-argument"
        if isinstance(v, (list, tuple)) and any(isinstance(x, Node) and x.name == removed_name for x in v):
            return "nested-in-keyword-list"
    return "indirect"
