"""C12 - one Adam step moves every output coordinate by exactly lr."""

from __future__ import annotations

import math
from typing import Any, Dict, List

from ..common import derive_seed, exc_key, loguniform, rng_for

PROPERTY = "C12"
LEVEL = "exploration"
RULE = ("each case is a unit-scaled Linear / LinearReadout / Conv1d(single output position) with fan_in, fan_out log-uniform in "
        "[1,4096] (product <= 2^22), kernel 1-9, depth None or 1..64 (depth container padded with 1x1 layers), eta log-uniform "
        "in [1e-4,1], constraint default or None, Adam or AdamW (eps=0, weight_decay=0), float64, a random +-1 input and an "
        "upstream gradient with no zero entry; parameters reach the optimizer flat, as one explicit multi-tensor group or as groups of "
        "one; depth containers may hold one tied layer instance; layer(x) is recorded before and after one real optimizer.step(). "
        "Non-trivial = "
        "fan_in > 1; distinct = (layer kind, fan_in, fan_out, kernel, depth, optimizer, constraint). A quarter of the cases mix in an ordinary torch parameter with allow_non_unit_scaling_params=True; stacks may be built from clones of one template and copied once more before training; lr may be a 0-dim tensor.")
ASSUMPTIONS = ["torch.optim.Adam with eps=0 moves each weight by lr*sign(grad) on the first step"]
IMPORTS = ["unit_scaling._modules", "unit_scaling.optim", "unit_scaling.functional"]
REQUIRED_MONITORS = ["step:outputs-compared"]
REQUIRED_REACH = {"optim.py": ["lr_scale_func_adam", "_get_fan_in", "lr_scale_for_depth", "scaled_parameters"],
                  "functional.py": ["linear", "linear_readout", "conv1d"],
                  "_modules.py": ["Linear.__init__", "LinearReadout.__init__", "Conv1d.__init__", "DepthSequential.__init__"]}
MIN_NONTRIVIAL = {"quick": 250, "thorough": 20000}


def gen_cases(tier: str, seed: int) -> List[Dict[str, Any]]:
    n = 800 if tier == "quick" else 64000
    cases = []
    for i in range(n):
        rng = rng_for(seed, PROPERTY, i)
        kind = rng.choice(["Linear", "LinearReadout", "Conv1d"])
        k = rng.randint(1, 9) if kind == "Conv1d" else 1
        while True:
            fi = max(1, min(4096, int(round(loguniform(rng, 1, 4096)))))
            fo = max(1, min(4096, int(round(loguniform(rng, 1, 4096)))))
            if fi * fo * k <= 2**22 and (fi != fo or rng.random() < 0.1):
                break
        r = rng.random()
        depth = None if r < 0.4 else rng.choice([1, 2, 3, 4, 9, 16, 64, rng.randint(1, 64)])
        cons = rng.choice(["default", None])
        cases.append({"kind": kind, "fan_in": fi, "fan_out": fo, "k": k, "depth": depth, "eta": loguniform(rng, 1e-4, 1.0),
                      "opt": rng.choice(["Adam", "AdamW"]), "constraint": cons, "container": rng.choice(["DepthSequential", "DepthModuleList"]),
                      "batch_dims": rng.choice([0, 1]) if kind != "Conv1d" else rng.choice([0, 1]),
                      # how the parameters reach the optimizer: flat iterable, or ONE explicit group in which the layer under test
                      # comes after the parameters of another layer
                      "group_form": rng.choice(["flat", "flat", "one-group", "groups-of-one"]),
                      "tied": rng.random() < 0.2,  # depth container holding the SAME layer instance in every slot (weight tying)
                      "seed": derive_seed(seed, PROPERTY, "s", i) % (2**31)})
    return cases


def rng_other(seed: int) -> int:
    return [5, 17, 64, 300][seed % 4]


def run_case(case: Dict[str, Any], ctx) -> None:
    import torch
    import unit_scaling as uu

    ctx.count("evaluations")
    torch.manual_seed(case["seed"])
    gen = torch.Generator().manual_seed(case["seed"])
    kind, fi, fo, k = case["kind"], case["fan_in"], case["fan_out"], case["k"]
    ckw = {} if case["constraint"] == "default" else {"constraint": None}
    if kind == "Linear":
        layer = uu.Linear(fi, fo, dtype=torch.float64, **ckw)
    elif kind == "LinearReadout":
        layer = uu.LinearReadout(fi, fo, dtype=torch.float64, **ckw)
    else:
        layer = uu.Conv1d(fi, fo, k, dtype=torch.float64, **ckw)
    depth = case["depth"]
    holder = layer
    if depth is not None:
        tied = case.get("tied") and kind == "Linear" and fi == fo and depth > 1
        pads = [uu.Linear(1, 1, dtype=torch.float64) for _ in range(depth - 1)]
        mods = [layer] + pads
        if case.get("tied") and depth > 1:
            mods = [layer] * depth  # the container applies one layer `depth` times; its depth is still len(container)
        clones = case["seed"] % 5 == 0 and depth > 1 and not (case.get("tied") and depth > 1) and fi * fo * k * depth <= 2**21  # (memory)
        if clones:
            # the common way to build a deep stack: clones of ONE template block go into the depth container (the depth tag
            # lands on the copies) ...
            import copy
            mods = [copy.deepcopy(layer) for _ in range(depth)]
        holder = uu.DepthSequential(*mods) if case["container"] == "DepthSequential" else uu.DepthModuleList(mods)
        if clones:
            # ... and the finished model is copied once more (an EMA copy, a checkpoint round trip) and THAT copy is trained
            holder = copy.deepcopy(holder)
            layer = holder[0]
            ctx.count("form:second-generation-copy-of-a-stack-of-clones")
        if layer.weight.mup_scaling_depth != depth:
            ctx.violation("C12:depth-not-recorded", f"container of {depth} modules recorded depth {layer.weight.mup_scaling_depth}")
            return
    if kind == "Conv1d":
        shape = ([1] if case["batch_dims"] else []) + [fi, k]
    else:
        shape = ([1] if case["batch_dims"] else []) + [fi]
    x = (torch.randint(0, 2, shape, generator=gen).to(torch.float64) * 2 - 1)
    cls = uu.optim.Adam if case["opt"] == "Adam" else uu.optim.AdamW
    eta = case["eta"]
    try:
        form = case.get("group_form", "flat")
        if form == "flat":
            arg = holder.parameters()
        else:
            other = uu.Linear(rng_other(case["seed"]), 3, dtype=torch.float64) if depth is None else None
            plist = ([p for p in other.parameters()] if other is not None else []) + [p for p in holder.parameters() if all(p is not q for q in layer.parameters())]
            plist = plist + list(layer.parameters())  # the layer under test last
            if other is not None:
                for p in other.parameters():
                    p.grad = torch.zeros_like(p)
            arg = [{"params": plist}] if form == "one-group" else [{"params": [p]} for p in plist]
        okw = {}
        if case["seed"] % 4 == 0:
            # a model that mixes unit-scaled layers with an ordinary torch parameter needs the documented allow flag: the layers
            # keep their u-muP learning rates
            plain = torch.nn.Parameter(torch.zeros(3, dtype=torch.float64))
            plain.grad = torch.zeros_like(plain)
            if form == "flat":
                arg = list(arg) + [plain]
            else:
                arg = list(arg) + [{"params": [plain]}]
            okw["allow_non_unit_scaling_params"] = True
            ctx.count("form:allow_non_unit_scaling_params")
        lr_arg = eta
        if case["seed"] % 5 == 1:
            lr_arg = torch.tensor(eta, dtype=torch.float64)  # documented as Union[float, Tensor]
            okw["foreach"] = False
            ctx.count("form:tensor-lr")
        opt = cls(arg, lr=lr_arg, eps=0.0, weight_decay=0.0, **okw)
        y0 = layer(x)
        g = torch.randn(y0.shape, generator=gen, dtype=torch.float64)
        g = torch.where(g.abs() < 1e-3, torch.full_like(g, 0.5), g)
        y0.backward(g)
        if depth is not None:
            for p in holder.parameters():
                if p.grad is None:
                    p.grad = torch.zeros_like(p)
        opt.step()
        with torch.no_grad():
            y1 = layer(x)
    except Exception as e:
        ctx.violation("C12:raises:" + exc_key(e), repr(e), case=case)
        return
    want = eta if depth is None else eta / math.sqrt(depth)
    delta = (y1 - y0.detach())
    ctx.count("step:outputs-compared", delta.numel())
    err = ((delta.abs() - want).abs().max() / want).item()
    sign_ok = bool((torch.sign(delta) == -torch.sign(g)).all())
    key = f"C12:{kind}:{'depth' if depth else 'nodepth'}"
    if err > 1e-9:
        ctx.violation(key + ":output-step-is-not-lr", f"|dy| ranges {delta.abs().min().item():.6e}..{delta.abs().max().item():.6e}, expected {want:.6e} (rel err {err:.2e})",
                      case=case)
    elif not sign_ok:
        ctx.violation(key + ":output-moves-along-the-gradient", "sign(dy) != -sign(upstream gradient)", case=case)
    if fi * k > 1:
        ctx.nontrivial(f"{kind}|{fi}|{fo}|{k}|{depth}|{case['opt']}|{case['constraint']}|{case.get('group_form')}")
