"""C10 - optimizer learning rates follow the u-muP rule for every type, shape, depth."""

from __future__ import annotations

import math
from typing import Any, Dict, List, Optional

from ..common import derive_seed, exc_key, loguniform, rng_for
from ..opcheck import rel_close

PROPERTY = "C10"
LEVEL = "exploration"
RULE = ("each case builds 3-14 tagged parameters (shapes of 1-3 dims, dims log-uniform in [1,4096], four tags, depth None or "
        "1..1024; in a quarter of the cases 40% of them frozen; rarely an untagged one, a >=4-dim weight or no lr anywhere) arranged as bare list / generator / groups "
        "with or without own lr (float or 0-dim tensor), and passes them through scaled_parameters and one of the three "
        "optimizer classes (SGD with both readout settings). Every resulting group lr is compared with a rule table typed "
        "from the property text. Non-trivial = a tagged parameter whose expected factor != 1; distinct = (family, tag, ndim, "
        "depth-class, lr-kind, container-kind, dims) signatures. A group's params is a list, a tuple or ONE tensor (all accepted by torch.optim). A group's params may also be a one-shot iterator (rebuilt for every call).")
ASSUMPTIONS = ["torch.optim constructors keep per-group lr values unchanged"]
IMPORTS = ["unit_scaling.optim", "unit_scaling.parameter"]
REQUIRED_MONITORS = ["lr:compared", "contract:lr_scale_func_adam", "contract:_get_fan_in", "contract:lr_scale_for_depth",
                     "contract:lr_scale_func_sgd_inner", "error-clause:checked", "optimizer:param_groups-compared"]
REQUIRED_REACH = {"optim.py": ["lr_scale_for_depth", "_get_fan_in", "lr_scale_func_sgd", "lr_scale_func_adam",
                               "lr_scale_func_sgd.<locals>.lr_scale_func_sgd_inner", "scaled_parameters",
                               "SGD.__init__", "Adam.__init__", "AdamW.__init__"]}
MIN_NONTRIVIAL = {"quick": 1500, "thorough": 200000}

TAGS = ["weight", "bias", "norm", "output"]


def _dim(rng) -> int:
    r = rng.random()
    if r < 0.1:
        return 1
    if r < 0.2:
        return rng.choice([2, 3, 4096, 4095, 1024])
    return max(1, min(4096, int(round(loguniform(rng, 1, 4096)))))


def gen_cases(tier: str, seed: int) -> List[Dict[str, Any]]:
    n = 1200 if tier == "quick" else 192000
    cases = []
    for i in range(n):
        rng = rng_for(seed, PROPERTY, i)
        params = []
        for _ in range(rng.randint(3, 14)):
            ndim = rng.choice([1, 2, 2, 3])
            while True:
                shape = [_dim(rng) for _ in range(ndim)]
                if len(set(shape)) == len(shape) or rng.random() < 0.1:  # square shapes deliberately rare
                    break
            tag = rng.choice(TAGS)
            r = rng.random()
            depth = None if r < 0.35 else (rng.choice([1, 2, 3, 4, 1024]) if r < 0.55 else rng.randint(1, 1024))
            params.append({"shape": shape, "tag": tag, "depth": depth})
        special = None
        r = rng.random()
        if r < 0.06:
            special = "untagged"
            params[rng.randrange(len(params))]["tag"] = None
        elif r < 0.10:
            special = "untagged-allowed"
            params[rng.randrange(len(params))]["tag"] = None
        elif r < 0.14:
            special = "weight-4d"
            params[rng.randrange(len(params))].update(tag="weight", shape=[rng.randint(1, 5) for _ in range(rng.choice([4, 5]))])
        elif r < 0.18:
            special = "no-lr"
        elif r < 0.22:
            special = "output-4d"  # allowed: factor 1, no fan-in needed
            params[rng.randrange(len(params))].update(tag="output", shape=[rng.randint(1, 5) for _ in range(4)])
        container = rng.choice(["list", "generator", "groups", "groups", "groups-own-lr", "groups-mixed-lr"])
        lr_kind = rng.choice(["float", "float", "tensor32", "tensor64", "int"])
        family = rng.choice(["Adam", "AdamW", "SGD-none", "SGD-out"])
        cases.append({"params": params, "special": special, "container": container, "lr_kind": lr_kind,
                      "lr": loguniform(rng, 1e-8, 1e2), "family": family,
                      "n_groups": rng.randint(1, 4), "seed": derive_seed(seed, PROPERTY, "s", i)})
    return cases


def expected_factor(family: str, tag: str, shape: List[int], depth: Optional[int]):
    """Rule table typed from the property statement. Returns (factor | None if don't-care | 'error')."""
    d = 1.0 if depth is None else 1.0 / math.sqrt(depth)
    constrained_sgd = family == "SGD-out"
    if tag == "weight":
        if len(shape) >= 4:
            return "error"
        fan_in = shape[0] if len(shape) == 1 else shape[1] if len(shape) == 2 else shape[1] * shape[2]
        return d * (math.sqrt(fan_in) if constrained_sgd else 1.0 / math.sqrt(fan_in))
    if tag in ("bias", "norm"):
        if constrained_sgd:
            if len(shape) != 1:
                return None  # "length" is only defined for 1-D: not judged
            return d * shape[0]
        return d
    if tag == "output":
        return d
    raise AssertionError(tag)


def setup(state: Dict[str, Any]) -> None:
    import icontract
    import unit_scaling.optim as O
    from ..instruments import install

    counts: Dict[str, int] = {}
    viol: List[Dict[str, Any]] = []
    state["counts"], state["viol"] = counts, viol

    def bump(k):
        counts[k] = counts.get(k, 0) + 1

    def rec(key, msg, **d):
        if len(viol) < 40:
            viol.append({"key": key, "msg": msg, "detail": d})

    class Broken(Exception):
        pass

    def post_depth(param, result):
        bump("contract:lr_scale_for_depth")
        d = getattr(param, "mup_scaling_depth", None)
        want = 1.0 if d is None else 1.0 / math.sqrt(d)
        if not rel_close(float(result), want, 1e-14):
            rec("C10:contract:lr_scale_for_depth-wrong", f"depth {d}: {result!r} != {want!r}")
        return True

    def post_fan_in(param, result):
        bump("contract:_get_fan_in")
        s = list(param.shape)
        want = s[0] if len(s) == 1 else s[1] if len(s) == 2 else s[1] * s[2]
        if result != want:
            rec("C10:contract:_get_fan_in-wrong", f"shape {s}: {result!r} != {want!r}")
        return True

    def mk_post(family, name):
        def post(param, result):
            bump(f"contract:{name}")
            want = expected_factor(family, param.mup_type, list(param.shape), param.mup_scaling_depth)
            if isinstance(want, float) and not rel_close(float(result), want, 1e-13):
                rec(f"C10:contract:{name}-wrong", f"{param.mup_type} {list(param.shape)} depth {param.mup_scaling_depth}: {result!r} != {want!r}")
            return True
        return post

    install(O.lr_scale_for_depth, icontract.ensure(post_depth, error=Broken)(O.lr_scale_for_depth))
    install(O._get_fan_in, icontract.ensure(post_fan_in, error=Broken)(O._get_fan_in))
    adam_orig = O.lr_scale_func_adam
    adam_dec = icontract.ensure(mk_post("Adam", "lr_scale_func_adam"), error=Broken)(adam_orig)
    install(adam_orig, adam_dec)
    sgd_orig = O.lr_scale_func_sgd

    def sgd_wrapped(readout_constraint):
        inner = sgd_orig(readout_constraint)
        if inner is adam_dec or inner is adam_orig:
            return inner
        return icontract.ensure(mk_post("SGD-out", "lr_scale_func_sgd_inner"), error=Broken)(inner)

    install(sgd_orig, sgd_wrapped)
    state["adam_fn"] = adam_dec


def make_param(spec, torch, uu):
    shape = spec["shape"]
    numel = 1
    for s in shape:
        numel *= s
    data = torch.zeros(shape) if numel <= 2**16 else torch.zeros(1).expand(shape)
    if spec["tag"] is None:
        return torch.nn.Parameter(data)
    return uu.Parameter(data, spec["tag"], spec["depth"])


def run_case(case: Dict[str, Any], ctx) -> None:
    import torch
    import unit_scaling as uu
    import unit_scaling.optim as O

    st = ctx.state
    rng = rng_for(case["seed"])
    ctx.count("evaluations")
    specs = case["params"]
    params = [make_param(s, torch, uu) for s in specs]
    frng = rng_for(case["seed"], "frozen")
    if frng.random() < 0.25:  # some parameters frozen (requires_grad=False): the rule looks at tags, not at trainability
        for p in params:
            if frng.random() < 0.4:
                p.requires_grad_(False)
        ctx.count("form:some-parameters-frozen")
    lr_kind, base_lr = case["lr_kind"], case["lr"]

    def mk_lr(v):
        if lr_kind == "tensor32":
            return torch.tensor(v, dtype=torch.float32)
        if lr_kind == "tensor64":
            return torch.tensor(v, dtype=torch.float64)
        if lr_kind == "int":
            return max(1, int(round(v)))
        return float(v)

    special = case["special"]
    global_lr = None if special == "no-lr" else mk_lr(base_lr)
    # container layout
    container = case["container"]
    group_lr: List[Any] = [None] * len(params)  # effective source lr per parameter
    if container in ("list", "generator"):
        arg: Any = list(params) if container == "list" else (p for p in params)
        for i in range(len(params)):
            group_lr[i] = global_lr
    else:
        k = min(case["n_groups"], len(params))
        cut = sorted(rng.sample(range(1, len(params)), k - 1)) if k > 1 else []
        bounds = [0] + cut + [len(params)]
        arg = []
        pforms: List[str] = []
        for gi in range(k):
            idx = list(range(bounds[gi], bounds[gi + 1]))
            g: Dict[str, Any] = {"params": [params[i] for i in idx]}
            own = container == "groups-own-lr" or (container == "groups-mixed-lr" and rng.random() < 0.5)
            if own and special != "no-lr":
                own_lr = mk_lr(base_lr * loguniform(rng, 0.1, 10))
                g["lr"] = own_lr
            for i in idx:
                group_lr[i] = g.get("lr", global_lr)
            # the forms torch.optim accepts for a group's "params": a list, any other iterable (tuple), or ONE tensor
            pf = frng.random()
            if pf < 0.15:
                pforms.append("tuple")
            elif pf < 0.30 and len(idx) == 1:
                pforms.append("single-tensor")
            elif pf < 0.45:
                # dict(params=model.base.parameters(), lr=...) - the torch.optim documentation's own idiom: a one-shot iterator
                pforms.append("one-shot-iterator")
            else:
                pforms.append("list")
            ctx.count("form:group-params-as-" + pforms[-1])
            arg.append(g)
    family = case["family"]
    allow = special == "untagged-allowed"
    tol = 2e-6 if lr_kind == "tensor32" else 1e-12

    def lrf(x):
        return float(x)

    want: List[Any] = []
    for spec, glr in zip(specs, group_lr):
        if spec["tag"] is None:
            want.append(("unchanged", glr))
        else:
            want.append((expected_factor(family, spec["tag"], spec["shape"], spec["depth"]), glr))
    expect_error = special in ("untagged", "weight-4d", "no-lr")

    def judge(groups, where: str) -> None:
        if len(groups) != len(params):
            ctx.violation(f"C10:{where}:group-count", f"{len(groups)} groups for {len(params)} parameters", case=_brief(case))
            return
        for g, p, spec, (fac, glr) in zip(groups, params, specs, want):
            if len(g["params"]) != 1 or g["params"][0] is not p:
                ctx.violation(f"C10:{where}:group-parameter-mismatch", "groups are not one-per-parameter in input order")
                return
            if fac is None:
                ctx.count("lr:dont-care")
                continue
            got = lrf(g["lr"])
            exp = lrf(glr) if fac == "unchanged" else lrf(glr) * fac
            ctx.count("lr:compared")
            if where != "scaled_parameters":
                ctx.count("optimizer:param_groups-compared")
            if not rel_close(got, exp, tol):
                fam = "adam-family" if family in ("Adam", "AdamW", "SGD-none") else "sgd-output-constrained"
                ndim = len(spec["shape"])
                ctx.violation(f"C10:{where}:wrong-lr:{fam}:{spec['tag']}:{ndim}d:{'depth' if spec['depth'] else 'nodepth'}",
                              f"{spec}: lr {got!r}, expected {lrf(glr)!r} x {fac!r} = {exp!r}", family=family, lr_kind=lr_kind)
            if fac != "unchanged" and fac != 1.0:
                ctx.nontrivial(f"{family}|{spec['tag']}|{len(spec['shape'])}d|{'none' if spec['depth'] is None else 'd'}|{lr_kind}|{container}|{spec['shape']}")

    # --- direct scaled_parameters -------------------------------------------------
    fn = O.lr_scale_func_sgd("to_output_scale") if family == "SGD-out" else (O.lr_scale_func_sgd(None) if family == "SGD-none" else O.lr_scale_func_adam)
    if family == "SGD-none" and fn is not st["adam_fn"]:
        ctx.violation("C10:sgd-unconstrained-readout-does-not-use-adam-rule", "lr_scale_func_sgd(None) is not the Adam rule")

    def fresh_arg():
        if container == "generator":
            return (p for p in params)
        if container == "list":
            return list(params)
        out_groups = []
        for g, pform in zip(arg, pforms):
            g2 = dict(g)
            ps = list(g["params"])
            g2["params"] = tuple(ps) if pform == "tuple" else ps[0] if pform == "single-tensor" else iter(ps) if pform == "one-shot-iterator" else ps
            out_groups.append(g2)
        return out_groups

    try:
        out = O.scaled_parameters(fresh_arg(), fn, lr=global_lr, allow_non_unit_scaling_params=allow)
        err = None
    except Exception as e:
        out, err = None, e
    _flush(st, ctx)
    if expect_error:
        ctx.count("error-clause:checked")
        if err is None:
            ctx.violation(f"C10:scaled_parameters:missing-error:{special}", f"no error for {special}", case=_brief(case))
        elif special in ("untagged", "no-lr") and not isinstance(err, ValueError):
            ctx.violation(f"C10:scaled_parameters:wrong-error-type:{special}:{type(err).__name__}", repr(err))
        ctx.nontrivial(f"error|{special}|{family}|{container}|{lr_kind}")
    elif err is not None:
        ctx.violation("C10:scaled_parameters:raises:" + exc_key(err), repr(err), case=_brief(case))
    else:
        judge(out, "scaled_parameters")
    # --- optimizer classes ------------------------------------------------------------
    cls = {"Adam": O.Adam, "AdamW": O.AdamW, "SGD-none": O.SGD, "SGD-out": O.SGD}[family]
    kw: Dict[str, Any] = {"allow_non_unit_scaling_params": allow}
    if family == "SGD-out":
        kw["readout_constraint"] = "to_output_scale"
    if family in ("Adam", "AdamW") and lr_kind.startswith("tensor"):
        kw["foreach"] = False
    if special == "no-lr":
        return  # optimizer classes always have a default lr
    try:
        opt = cls(fresh_arg(), lr=global_lr, **kw)
        err = None
    except Exception as e:
        opt, err = None, e
    _flush(st, ctx)
    if expect_error:
        ctx.count("error-clause:checked")
        if err is None:
            ctx.violation(f"C10:{cls.__name__}:missing-error:{special}", f"no error for {special}")
    elif err is not None:
        ctx.violation(f"C10:{cls.__name__}:raises:" + exc_key(err), repr(err), case=_brief(case))
    else:
        judge(opt.param_groups, f"optimizer-{'SGD' if cls is O.SGD else 'Adam-family'}")


def _brief(case):
    return {k: v for k, v in case.items() if k != "params"} | {"n_params": len(case["params"])}


def _flush(state, ctx) -> None:
    for k, v in state["counts"].items():
        ctx.count(k, v)
    state["counts"].clear()
    for v in state["viol"]:
        ctx.violation(v["key"], v["msg"], **v["detail"])
    state["viol"].clear()
