"""C03 - exact unit scale of (bi)linear ops at initialisation."""

from __future__ import annotations

import math
from typing import Any, Dict, List, Optional

from ..common import derive_seed, exc_key, loguniform, rng_for
from ..opcheck import rel_close

PROPERTY = "C03"
LEVEL = "exploration"
RULE = ("seeded configurations (constraint=None, float64) of linear, linear_readout, matmul (equal batch dims), conv1d (no padding), "
        "add (all broadcast patterns), embedding, dropout, mse_loss, layer_norm / rms_norm gains and biases, residual_split/add. "
        "Scale factors are the scalars fitted against the PyTorch reference (as in C01/C02); term counts N are MEASURED by running "
        "the reference op and its autograd on all-ones (one-hot for signed coefficients) operands - never taken from a formula. "
        "Oracle: s^2 * mean(N) = 1 to 1e-12. Non-trivial = N > 1 for at least one tensor; distinct = (op, shape signature).")
ASSUMPTIONS = ["independent zero-mean unit-variance operands: variance of a sum of N such products is N", "PyTorch reference ops"]
IMPORTS = ["unit_scaling.functional"]
REQUIRED_MONITORS = ["unit-scale:output-checked", "unit-scale:grad-checked", "counts:measured-on-reference", "dropout:monte-carlo", "conv1d:interior-periods"]
REQUIRED_REACH = {"functional.py": ["matmul", "linear", "linear_readout", "conv1d", "add", "_get_broadcast_sizes", "embedding", "dropout",
                                    "mse_loss", "residual_split", "residual_add", "layer_norm", "rms_norm"]}
MIN_NONTRIVIAL = {"quick": 300, "thorough": 8000}
OPS = ["linear", "linear_readout", "matmul", "conv1d", "add", "embedding", "dropout", "mse_loss", "layer_norm", "rms_norm", "residual"]


def gen_cases(tier: str, seed: int) -> List[Dict[str, Any]]:
    n = 1100 if tier == "quick" else 22000
    cases = []
    for i in range(n):
        cases.append({"fn": OPS[i % len(OPS)], "i": i, "seed": derive_seed(seed, PROPERTY, i) % (2**31), "tier": tier})
    return cases


def _cfg(fn: str, rng):
    from ..optable import OPS as T

    op = T[fn]
    for _ in range(200):
        cfg = op.gen(rng) if fn != "conv1d" else op.gen(rng, padding_ok=False)
        if fn == "matmul" and not cfg["equal_batch"]:
            continue
        if fn == "add" and cfg["mode"] == "pyscalar":
            continue
        if fn == "embedding":
            cfg["max_norm"] = None
            cfg["avoid_padding"] = True
        if fn == "conv1d":
            # leave >= 2 full stride periods of interior positions for the input gradient
            k, d, s = cfg["k"], cfg["dilation"], cfg["stride"]
            need_interior = (k - 1) * d + 2 * s
            cfg["L"] = max(cfg["L"], need_interior + (k - 1) * d + 1 + rng.choice([0, 1, 3, 8]))
        if fn == "dropout":
            cfg["training"] = True
            cfg["p"] = rng.choice([0.1, 0.5, 0.9, round(rng.uniform(0.02, 0.95), 3)])
        return op, cfg
    raise RuntimeError("generator exhausted")


def _ones_like_inputs(op, cfg, torch):
    gen = torch.Generator().manual_seed(0)
    base = op.build(cfg, gen, torch.float64)
    out = {}
    for k, v in base.items():
        if isinstance(v, torch.Tensor) and v.is_floating_point():
            t = torch.zeros_like(v) if k == "bias" else torch.ones_like(v)
            out[k] = t.requires_grad_(True)
        else:
            out[k] = v
    return out


def run_case(case: Dict[str, Any], ctx) -> None:
    import torch
    import unit_scaling.functional as U

    ctx.count("evaluations")
    rng = rng_for(case["seed"], "cfg")
    fn = case["fn"]
    if fn == "residual":
        return run_residual(case, ctx, rng)
    from ..optable import run_fit

    op, cfg = _cfg(fn, rng)
    constraint = None if op.constraint_kind else "n/a"
    seed = case["seed"]
    key = f"C03:{fn}"
    if fn == "dropout":
        return run_dropout(case, ctx, op, cfg, U)
    fr = run_fit(op, U, cfg, constraint, torch.float64, seed, seed + 7)
    if fr.u_exc or fr.ref_exc:
        ctx.violation(key + ":raises:" + exc_key(fr.u_exc or fr.ref_exc), repr(fr.u_exc or fr.ref_exc), cfg=cfg)
        return
    if fr.s_out is None or fr.res_out > 1e-10:
        ctx.skip("not a scalar multiple (C01's business)")
        return
    # ---- measure term counts on the reference op with all-ones operands -------------
    ones = _ones_like_inputs(op, cfg, torch)
    if fn == "rms_norm":
        cfg_m = dict(cfg, eps=0.0)
    else:
        cfg_m = cfg
    if fn == "mse_loss":
        # signed coefficients: probe the reference gradient map with one-hot operands
        x = torch.zeros(cfg["shape"], dtype=torch.float64)
        coef2 = 0.0
        idx = tuple(0 for _ in cfg["shape"])
        for which in ("input", "target"):
            a = {"input": x.clone().requires_grad_(True), "target": x.clone().requires_grad_(True)}
            with torch.no_grad():
                a[which][idx] = 1.0
            y = op.call_ref(a, cfg, grad_ref=True)
            (g,) = torch.autograd.grad(y, a["input"])
            coef2 += float(g[idx]) ** 2
        ctx.count("counts:measured-on-reference")
        for name in ("input", "target"):
            b = fr.b.get(name)
            ctx.count("unit-scale:grad-checked")
            if b is None or not rel_close(b * b * coef2, 1.0, 1e-12):
                ctx.violation(key + f":grad-not-unit-scale:{name}", f"b={b!r}, measured sum of squared coefficients {coef2}: b^2*N={b*b*coef2 if b else None!r}", cfg=cfg)
        ctx.nontrivial(f"{fn}|{cfg['shape']}|{cfg['reduction']}")
        return
    y = op.call_ref(ones, cfg_m)
    ctx.count("counts:measured-on-reference")
    yv = y.detach()
    nontriv = False
    judged_out = fn not in ("layer_norm", "rms_norm", "embedding")
    if fn == "add" and (math.prod(cfg["a"]) == 1 or math.prod(cfg["b"]) == 1):
        ctx.count("dont-care:single-element-add")
        judged_out = False
    if judged_out:
        n_out = float(yv.reshape(-1)[0])
        if not bool((yv == n_out).all()):
            ctx.note(f"{fn}: non-uniform forward count, mean used")
            n_out = float(yv.mean())
        ctx.count("unit-scale:output-checked")
        lhs = fr.s_out * n_out if fn == "linear_readout" else fr.s_out**2 * n_out
        if not rel_close(lhs, 1.0, 1e-12):
            ctx.violation(key + ":output-not-unit-scale", f"s_out={fr.s_out!r}, measured terms per output element N={n_out}: "
                          f"{'s*N' if fn == 'linear_readout' else 's^2*N'}={lhs!r}", cfg=cfg)
        nontriv = nontriv or n_out > 1
    elif fn == "embedding":
        ctx.count("unit-scale:output-checked")
        if not rel_close(fr.s_out, 1.0, 1e-12):
            ctx.violation(key + ":output-not-unit-scale", f"s_out={fr.s_out!r}", cfg=cfg)
    y.backward(torch.ones_like(y))
    for name in op.diff:
        t = ones.get(name)
        if not isinstance(t, torch.Tensor) or t.grad is None:
            continue
        b = fr.b.get(name)
        if b is None:
            continue
        if fn in ("layer_norm", "rms_norm") and name == "input":
            continue  # C04's clause
        cnt = t.grad.detach()
        if fn == "layer_norm" and name == "weight":
            # the gain gradient sums one (x_hat * g) term per normalised row, like the bias gradient; with all-ones input
            # x_hat is 0, so the row count is measured on the bias path of the same reference call
            bb = ones.get("bias")
            if bb is None:
                a2 = dict(ones)
                a2["bias"] = torch.zeros(cfg["norm"], dtype=torch.float64, requires_grad=True)
                y2 = op.call_ref(a2, cfg_m)
                y2.backward(torch.ones_like(y2))
                cnt = a2["bias"].grad.detach()
            else:
                cnt = bb.grad.detach()
        if fn == "add" and (math.prod(cfg["a"]) == 1 or math.prod(cfg["b"]) == 1):
            continue
        if fn == "conv1d" and name == "input":
            k, d, s = cfg["k"], cfg["dilation"], cfg["stride"]
            L_out = (cfg["L"] - d * (k - 1) - 1) // s + 1
            lo, hi = (k - 1) * d, (L_out - 1) * s
            periods = (hi - lo + 1) // s
            if periods < 1:
                ctx.count("dont-care:no-interior-period")
                continue
            ctx.count("conv1d:interior-periods", periods)
            n_mean = float(cnt[..., lo: lo + periods * s].mean())
        elif fn == "embedding":
            n_mean = float(cnt.mean())
        else:
            n0 = float(cnt.reshape(-1)[0])
            if not bool((cnt == n0).all()):
                ctx.violation(key + f":reference-count-not-uniform:{name}", "harness expectation broken (not a library defect)")
                continue
            n_mean = n0
        ctx.count("unit-scale:grad-checked")
        lhs = b * b * n_mean
        if not rel_close(lhs, 1.0, 1e-12):
            ctx.violation(key + f":grad-not-unit-scale:{name}", f"b_{name}={b!r}, measured mean term count N={n_mean!r}: b^2*N={lhs!r}", cfg=cfg)
        nontriv = nontriv or n_mean != 1
    if nontriv:
        ctx.nontrivial(f"{fn}|{sorted((k, str(v)) for k, v in cfg.items() if not isinstance(v, float))}")


def run_dropout(case, ctx, op, cfg, U) -> None:
    import torch
    import torch.nn.functional as F

    p = cfg["p"]
    n = 2**22 if case["tier"] == "quick" else 2**24
    torch.manual_seed(case["seed"])
    x = torch.ones(n, dtype=torch.float32, requires_grad=True)
    torch.manual_seed(case["seed"])
    yu = U.dropout(x, p, True)
    torch.manual_seed(case["seed"])
    yr = F.dropout(torch.ones(n, dtype=torch.float32), p, True)
    nz = yr != 0
    s = float((yu.detach()[nz] / yr[nz]).double().mean()) if bool(nz.any()) else None
    ctx.count("dropout:monte-carlo")
    ctx.count("unit-scale:output-checked")
    if s is None or not rel_close(s, math.sqrt(1 - p), 1e-6):
        ctx.violation("C03:dropout:scale-is-not-sqrt(1-p)", f"p={p}: s={s!r} vs {math.sqrt(1-p)!r}")
        return
    # exact scale in float64
    xd = torch.ones(64, dtype=torch.float64, requires_grad=True)
    torch.manual_seed(1)
    yd = U.dropout(xd, p, True)
    torch.manual_seed(1)
    rd = F.dropout(torch.ones(64, dtype=torch.float64), p, True)
    nzd = rd != 0
    if bool(nzd.any()):
        sd = float((yd.detach()[nzd] / rd[nzd]).mean())
        if not rel_close(sd, math.sqrt(1 - p), 1e-12):
            ctx.violation("C03:dropout:scale-is-not-sqrt(1-p)", f"p={p}: float64 s={sd!r}")
        yd.backward(torch.ones_like(yd))
        gr = xd.grad[nzd] / rd[nzd]
        ctx.count("unit-scale:grad-checked")
        if not rel_close(float(gr.mean()), math.sqrt(1 - p), 1e-12):
            ctx.violation("C03:dropout:grad-scale-is-not-sqrt(1-p)", f"p={p}: b={float(gr.mean())!r}")
    m2 = float((yr.double() ** 2).mean())  # E[ref(1)^2], Monte-Carlo
    sigma = math.sqrt(p / (1 - p) ** 3 / n)
    if abs(s * s * m2 - 1) > 5 * sigma * s * s + 1e-6:
        ctx.violation("C03:dropout:output-not-unit-scale", f"p={p}: s^2*E[ref^2]={s*s*m2!r} (5 sigma = {5*sigma*s*s:.2e})")
    ctx.nontrivial(f"dropout|{p}")


def run_residual(case, ctx, rng) -> None:
    import torch
    import unit_scaling.functional as U

    r = rng.random()
    tau = 1.0 if r < 0.1 else loguniform(rng, 1e-3, 1e3)
    shape = [rng.choice([1, 2, 3, 5]) for _ in range(rng.randint(1, 3))]
    e = torch.zeros(shape, dtype=torch.float64)
    one = torch.ones(shape, dtype=torch.float64)
    try:
        # forward coefficients of residual_add by one-hot probing (r=1,s=0) and (r=0,s=1)
        cr = U.residual_add(one.clone(), e.clone(), tau)
        cs = U.residual_add(e.clone(), one.clone(), tau)
        ctx.count("counts:measured-on-reference")
        ctx.count("unit-scale:output-checked")
        tot = float(cr.reshape(-1)[0]) ** 2 + float(cs.reshape(-1)[0]) ** 2
        if abs(tot - 1) > 4e-16 * 4 or not bool((cr == cr.reshape(-1)[0]).all()):
            ctx.violation("C03:residual_add:output-not-unit-scale", f"tau={tau}: squared mixing weights sum to {tot!r}")
        # gradients of residual_add: each operand receives exactly the upstream gradient (one term)
        a = one.clone().requires_grad_(True)
        b = one.clone().requires_grad_(True)
        g = torch.randn(shape, generator=torch.Generator().manual_seed(case["seed"]), dtype=torch.float64)
        U.residual_add(a, b, tau).backward(g)
        ctx.count("unit-scale:grad-checked", 2)
        if not torch.equal(a.grad, g) or not torch.equal(b.grad, g):
            ctx.violation("C03:residual_add:grad-not-unit-scale", f"tau={tau}: operand gradients are not the upstream gradient")
        # residual_split: backward coefficients by one-hot upstream probing
        x = one.clone().requires_grad_(True)
        rr, ss = U.residual_split(x, tau)
        if not torch.equal(rr.detach(), one) or not torch.equal(ss.detach(), one):
            ctx.violation("C03:residual_split:output-not-unit-scale", "split outputs differ from the input")
        (g1,) = torch.autograd.grad([rr, ss], x, [one, e], retain_graph=True)
        (g2,) = torch.autograd.grad([rr, ss], x, [e, one])
        tot2 = float(g1.reshape(-1)[0]) ** 2 + float(g2.reshape(-1)[0]) ** 2
        ctx.count("unit-scale:grad-checked")
        if abs(tot2 - 1) > 16e-16:
            ctx.violation("C03:residual_split:grad-not-unit-scale", f"tau={tau}: squared backward weights sum to {tot2!r}")
    except Exception as ex:
        ctx.violation("C03:residual:raises:" + exc_key(ex), repr(ex), tau=tau)
        return
    ctx.nontrivial(f"residual|{int(round(math.log10(tau) * 4))}|{shape}")
