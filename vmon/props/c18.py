"""C18 - scale tracking is purely observational; its metrics are the true statistics."""

from __future__ import annotations

import math
from typing import Any, Dict, List

from ..common import derive_seed, exc_key, rng_for

PROPERTY = "C18"
LEVEL = "exploration"
RULE = ("seeded programs (as C16 plus fan-out, integer/bool intermediates, list ops, multiple outputs, parameters, inputs containing "
        "zeros; float32) are wrapped by the real track_scales (TorchDynamo path) and run forward-only or forward+backward. (1) outputs "
        "and all gradients must be bit-identical to the unwrapped module. (2) a harness-side spy on ScaleTrackingBackend captures the "
        "GraphModule and the actual flat inputs; an INDEPENDENT instrumented fx.Interpreter (detached copy of every node output + "
        "Tensor.register_hook for the total gradient) is run on them; every node's recorded Metrics are compared with numpy float64 "
        "statistics of those captured tensors. (3) an icontract postcondition recomputes the six statistics on every real "
        "Metrics.from_tensor call. (4) analyse_module: gradients left on the module equal a plain forward/backward, the ScaleDict "
        "equals the std of independently captured tensors ('n/a' only where nothing flowed). (5) 60% of the modules have some / all parameters frozen or turned into float buffers: requires_grad of every parameter, "
        "buffer and output is compared before/after tracking. (6) every tracked module is run a SECOND "
        "time, forward-only, on new data: no stale backward metrics, refreshed forward metrics. Non-trivial = graph has >= 3 float nodes and (fan-out or backward run); "
        "distinct = emitted source x run mode. Half of the forward-only runs execute under torch.no_grad(). Programs may contain in-place ops spelled as functions and used as statements (F.relu(t, inplace=True), torch.relu_(t), torch.clamp_(t, min=0)); a quarter of the cases make a rejected call first.")
ASSUMPTIONS = ["the captured GraphModule re-executed by a plain fx.Interpreter reproduces the tensors that flowed (deterministic ops only: dropout p=0)"]
IMPORTS = ["unit_scaling.transforms._track_scales", "unit_scaling.utils", "unit_scaling.transforms"]
REQUIRED_MONITORS = ["tracked:bit-compared", "metrics:nodes-compared-fwd", "metrics:nodes-compared-bwd", "contract:Metrics.from_tensor",
                     "nonfloat:nodes-checked", "analyse_module:checked", "analyse_module:annotations-parsed", "metrics:no-gradient-nodes"]
REQUIRED_REACH = {"transforms/_track_scales.py": ["Metrics.from_tensor", "ScaleTrackingAutogradFunction.forward", "ScaleTrackingAutogradFunction.backward",
                                                  "ScaleTrackingInterpreter.run_node", "ScaleTrackingBackend.__call__", "track_scales", "_get_tracking_meta"],
                  "utils.py": ["ScaleTracker.forward", "ScaleTracker.backward", "ScaleTrackingInterpreter.run_node", "_record_scales", "analyse_module"]}
MIN_NONTRIVIAL = {"quick": 90, "thorough": 4000}
FORMS = ["embedding", "nn_gelu", "conv1d", "bias_kw", "inplace_fn"]


def gen_cases(tier: str, seed: int) -> List[Dict[str, Any]]:
    n = 256 if tier == "quick" else 12000
    cases = []
    for i in range(n):
        rng = rng_for(seed, PROPERTY, "prof", i)
        cases.append({"kind": "track", "seed": derive_seed(seed, PROPERTY, i) % (2**31), "backward": rng.random() < 0.75, "zeros": rng.random() < 0.3,
                      "profile": {"dtype": "float32", "max_ops": rng.choice([2, 5, 9, 14]), "residual": rng.choice([0, 1, 2]),
                                  "forms": [f for f in FORMS if rng.random() < 0.5], "loss": rng.random() < 0.25, "extras": rng.random() < 0.6},
                      # some of the module's parameters frozen (requires_grad=False) or turned into float buffers
                      "frozen": rng.choice(["none", "none", "some-params", "buffers", "all-params"])})
    for i in range(32 if tier == "quick" else 400):
        cases.append({"kind": "analyse", "seed": derive_seed(seed, PROPERTY, "an", i) % (2**31)})
    return cases


def np_stats(t) -> Dict[str, float]:
    import numpy as np

    a = t.detach().double().cpu().numpy().reshape(-1)
    n = a.size
    if n == 0:
        return {"numel": 0}
    std = float(np.std(a, ddof=1)) if n > 1 else float("nan")
    return {"mean_abs": float(np.mean(np.abs(a))), "abs_mean": float(abs(np.mean(a))), "std": std, "abs_max": float(np.max(np.abs(a))),
            "abs_min": float(np.min(np.abs(a))), "numel": n}


def stats_match(got, want: Dict[str, float]) -> str:
    for k, w in want.items():
        g = getattr(got, k)
        if k == "numel":
            if g != w:
                return f"numel {g} != {w}"
            continue
        if isinstance(w, float) and math.isnan(w):
            if not (isinstance(g, float) and math.isnan(g)):
                return f"{k} {g!r} != nan"
            continue
        if isinstance(w, float) and math.isinf(w):
            # (an overflowed tensor - exp of a large value - has infinite statistics: they must be the SAME infinity)
            if not (isinstance(g, float) and g == w):
                return f"{k} {g!r} != {w!r}"
            continue
        # float32 reductions: the error of a mean is relative to the magnitude of the data, not to the (possibly ~0) mean itself
        slack = 1e-5 * want.get("abs_max", 0.0) if k in ("abs_mean", "mean_abs", "std") else 0.0
        if not math.isfinite(slack):
            slack = 0.0
        if not abs(g - w) <= 1e-4 * abs(w) + 1e-6 + slack:
            return f"{k} {g!r} != {w!r}"
    return ""


class Broken(Exception):
    pass


def setup(state: Dict[str, Any]) -> None:
    import icontract
    from unit_scaling.transforms import _track_scales as T
    from ..instruments import install

    counts: Dict[str, int] = {}
    viol: List[Dict[str, Any]] = []
    state.update(counts=counts, viol=viol)

    def post(t, result):
        counts["contract:Metrics.from_tensor"] = counts.get("contract:Metrics.from_tensor", 0) + 1
        try:
            if t.numel() > 0:
                bad = stats_match(result, np_stats(t))
                if bad and len(viol) < 20:
                    viol.append({"key": "C18:metrics:from_tensor-is-not-the-statistic:" + bad.split(" ")[0], "msg": f"Metrics.from_tensor on a {tuple(t.shape)} tensor: {bad}", "detail": {}})
        except Exception as e:
            viol.append({"key": "C18:monitor-error", "msg": repr(e), "detail": {}})
        return True

    orig = T.Metrics.__dict__["from_tensor"].__func__
    state["installs"] = install(orig, icontract.ensure(post, error=Broken)(orig))


def _flush(state, ctx):
    for k, v in state["counts"].items():
        ctx.count(k, v)
    state["counts"].clear()
    for v in state["viol"]:
        ctx.violation(v["key"], v["msg"], **v["detail"])
    state["viol"].clear()


def run_case(case: Dict[str, Any], ctx) -> None:
    try:
        if case["kind"] == "track":
            run_track(case, ctx)
        else:
            run_analyse(case, ctx)
    finally:
        _flush(ctx.state, ctx)


def make_capture_interpreter():
    import torch
    from torch import fx

    class Capture(fx.Interpreter):
        """Independent instrumentation: never touches node.meta, never wraps tensors in autograd Functions."""

        def __init__(self, gm):
            super().__init__(gm)
            self.fwd: Dict[str, Any] = {}
            self.bwd: Dict[str, Any] = {}
            self.kinds: Dict[str, str] = {}

        def run_node(self, n):
            out = super().run_node(n)
            if isinstance(out, torch.Tensor) and out.is_floating_point() and out.requires_grad and n.op not in ("placeholder", "output"):
                # Give every node output its own (non-view) autograd identity: an op may return one of its operands itself
                # (dropout with p=0, in-place add), and hooks on views that are later modified in place are dropped by autograd.
                # clone() is value-exact, so the tensors that flow are unchanged.
                out = out.clone()
            if isinstance(out, torch.Tensor):
                self.kinds[n.name] = "float" if out.is_floating_point() else "nonfloat"
                if out.is_floating_point():
                    self.fwd[n.name] = out.detach().clone()
                    if out.requires_grad:
                        name = n.name

                        def hook(g, name=name):
                            prev = self.bwd.get(name)
                            self.bwd[name] = g.detach().clone() if prev is None else prev + g.detach()
                        out.register_hook(hook)
            else:
                self.kinds[n.name] = "other"
            return out
    return Capture


def run_track(case, ctx) -> None:
    import torch
    import torch._dynamo
    from unit_scaling.transforms import _track_scales as T
    from unit_scaling.transforms import track_scales
    from .. import progs
    from ..instruments import bits_equal

    ctx.count("evaluations")
    rng = rng_for(case["seed"], "prog")
    prog = progs.gen_program(rng, case["profile"])
    m, src = progs.build_module(prog, case["seed"])
    ctx.sample({"emitted_source": src})
    inputs = progs.make_inputs(prog, case["seed"] + 5)
    if case["zeros"]:
        for t in inputs:
            if t.is_floating_point():
                t.view(-1)[:: 3] = 0.0
    key = "C18"
    frozen = case.get("frozen", "none")
    if frozen != "none":
        frng = rng_for(case["seed"], "frozen")
        for name, p in list(m.named_parameters()):
            if frozen == "all-params" or frng.random() < 0.5:
                if frozen == "buffers" and "." not in name:
                    del m._parameters[name]
                    m.register_buffer(name, p.detach().clone())
                else:
                    p.requires_grad_(False)
        ctx.count("form:module-with-" + frozen)
    flags_before = {k: v.requires_grad for k, v in list(m.named_parameters()) + list(m.named_buffers())}
    captured: Dict[str, Any] = {}
    orig_call = T.ScaleTrackingBackend.__call__

    def spy_call(self, gm, example_inputs):
        inner = orig_call(self, gm, example_inputs)
        captured["gm"] = gm

        def wrapped(*args, **kwargs):
            captured["args"] = [a.detach().clone().requires_grad_(a.requires_grad) if isinstance(a, torch.Tensor) and a.is_floating_point() else
                                (a.clone() if isinstance(a, torch.Tensor) else a) for a in args]
            return inner(*args, **kwargs)
        return wrapped

    T.ScaleTrackingBackend.__call__ = spy_call
    try:
        try:
            tm = track_scales(m)
        except Exception as e:
            ctx.violation(f"{key}:track_scales-raises:{exc_key(e)}", repr(e), source=src)
            return
        if case["seed"] % 4 == 2:
            try:  # history: a rejected call first (wrong number of arguments, caught by the caller)
                tm()
            except Exception:
                ctx.count("history:rejected-call-first")
            captured.clear()
        torch._dynamo.utils.counters.clear()
        ins_t = [t.detach().clone() for t in inputs]
        ins_o = [t.detach().clone().requires_grad_(True) if t.is_floating_point() else t.clone() for t in inputs]
        # forward-only runs: half of them under torch.no_grad() (how scales of a trained model are usually inspected)
        no_grad = (not case["backward"]) and case["seed"] % 2 == 0
        try:
            if no_grad:
                with torch.no_grad():
                    out_t = tm(*ins_t)
                ctx.count("form:forward-only-run-under-no_grad")
            else:
                out_t = tm(*ins_t)
        except Exception as e:
            ctx.violation(f"{key}:tracked-module-raises:{exc_key(e)}" + (":under-no_grad" if no_grad else ""), repr(e), source=src)
            return
    finally:
        T.ScaleTrackingBackend.__call__ = orig_call
    if sum(torch._dynamo.utils.counters["graph_break"].values()) or "gm" not in captured:
        ctx.count("excluded:graph-break")
        ctx.skip("graph break")
        return
    outs_t = list(out_t) if isinstance(out_t, (tuple, list)) else [out_t]
    if no_grad:
        with torch.no_grad():
            out_o = m(*ins_o)
    else:
        out_o = m(*ins_o)
    outs_o = list(out_o) if isinstance(out_o, (tuple, list)) else [out_o]
    ctx.count("tracked:bit-compared")
    if len(outs_t) != len(outs_o) or any(not bits_equal(a.detach(), b.detach()) for a, b in zip(outs_t, outs_o)):
        why = ""
        if no_grad and len(outs_t) == len(outs_o):
            # Mechanism test: under no_grad the tracking nodes hand grad-free clones of the parameters to the ops, and PyTorch
            # itself picks another kernel for e.g. F.linear(x, W, b) when W / b do not require grad (rounding-level difference,
            # reproducible without the library). If the PLAIN module with its parameters frozen reproduces the tracked output bit
            # for bit, the difference is exactly that and nothing else.
            import copy
            mf = copy.deepcopy(m)
            for p_ in mf.parameters():
                p_.requires_grad_(False)
            with torch.no_grad():
                out_f = mf(*[t.detach().clone() for t in inputs])
            outs_f = list(out_f) if isinstance(out_f, (tuple, list)) else [out_f]
            rel = max(float((a.detach() - b.detach()).abs().max()) / max(float(b.detach().abs().max()), 1e-30) for a, b in zip(outs_t, outs_o))
            if rel <= 1e-5 and len(outs_f) == len(outs_t) and all(bits_equal(a.detach(), b.detach()) for a, b in zip(outs_t, outs_f)):
                why = ":rounding-level:no_grad-run-equals-the-module-with-grad-free-parameters"
        ctx.violation(f"{key}:tracked-output-differs-from-untracked{why}", "track_scales changed the forward values", source=src)
        return
    g = torch.Generator().manual_seed(case["seed"] + 9)
    ups = [torch.randn(y.shape, generator=g, dtype=y.dtype) for y in outs_o]
    pt = {k: v for k, v in tm.named_parameters()}
    po = {k: v for k, v in m.named_parameters()}
    if case["backward"]:
        float_ins_t = [t for t in ins_t if t.is_floating_point()]
        if any(not t.requires_grad for t in float_ins_t):
            ctx.violation(f"{key}:inputs-not-made-differentiable", "track_scales is documented to set requires_grad on floating-point inputs", source=src)
            return
        flags_after = {k: v.requires_grad for k, v in list(tm.named_parameters()) + list(tm.named_buffers())}
        flags_orig = {k: v.requires_grad for k, v in list(m.named_parameters()) + list(m.named_buffers())}
        ctx.count("sanitizer:requires_grad-flags-compared", len(flags_before))
        if flags_after != flags_before or flags_orig != flags_before:
            diff = sorted(k for k in flags_before if flags_after.get(k) != flags_before[k] or flags_orig.get(k) != flags_before[k])
            ctx.violation(f"{key}:tracking-changes-requires_grad-of-parameters-or-buffers", f"requires_grad flipped on {diff[:5]}", source=src, frozen=frozen)
            return
        lt = float_ins_t + [pt[k] for k in sorted(pt) if po[k].requires_grad]
        lo = [t for t in ins_o if t.is_floating_point()] + [po[k] for k in sorted(po) if po[k].requires_grad]
        if [y.requires_grad for y in outs_t] != [y.requires_grad for y in outs_o]:
            ctx.violation(f"{key}:tracked-output-requires_grad-differs-from-untracked", f"{[y.requires_grad for y in outs_t]} vs {[y.requires_grad for y in outs_o]}",
                          source=src)
            return
        if not lo or not any(y.requires_grad for y in outs_o):
            ctx.count("no-differentiable-leaf-or-output")
            gt = go = ()
        else:
            try:
                gt = torch.autograd.grad([y for y in outs_t if y.requires_grad], lt, [u for y, u in zip(outs_t, ups) if y.requires_grad], allow_unused=True)
            except Exception as e:
                ctx.violation(f"{key}:tracked-backward-raises:{exc_key(e)}", repr(e), source=src)
                return
            go = torch.autograd.grad([y for y in outs_o if y.requires_grad], lo, [u for y, u in zip(outs_o, ups) if y.requires_grad], allow_unused=True)
        for a, b in zip(gt, go):
            if (a is None) != (b is None):
                ctx.violation(f"{key}:tracked-gradient-differs-from-untracked:gradient-missing", "a gradient exists on one side only", source=src)
                return
            if a is not None and not bits_equal(a, b):
                # relative to the LARGEST gradient of the run: a gradient that is mathematically zero (a key bias under softmax)
                # consists of rounding noise only, and noise differs by 100% of itself
                gmax_all = max([float(x_.abs().max()) for x_ in go if x_ is not None and x_.numel()] + [1e-30])
                rel = float((a - b).abs().max()) / max(float(b.abs().max()), gmax_all)
                if rel <= 1e-5:  # (float32 programs: a few dozen ulp of the run's largest gradient)
                    # rounding-level difference: attribute it to the accumulation order of >= 3 gradient contributions, if the
                    # program has such a tensor (float addition is not associative); anything else keeps its own key
                    why = "rounding-level:accumulation-order-at-a-tensor-with-3-or-more-consumers" if _max_fanout(prog) >= 3 else "rounding-level:unexplained"
                else:
                    why = "values-changed"
                ctx.violation(f"{key}:tracked-gradient-differs-from-untracked:{why}", f"track_scales changed a gradient (max rel diff {rel:.2e})", source=src)
                return
    # ---- independent instrumented run on the captured graph and inputs -----------------------------
    gm = captured["gm"]
    cap = make_capture_interpreter()(gm)
    try:
        if no_grad:
            with torch.no_grad():
                out_c = cap.run(*captured["args"])
        else:
            out_c = cap.run(*captured["args"])
    except Exception as e:
        ctx.count("harness_error")
        ctx.note("capture interpreter failed: " + repr(e))
        return
    flat_c = []

    def flat(o):
        if isinstance(o, torch.Tensor):
            flat_c.append(o)
        elif isinstance(o, (tuple, list)):
            for x in o:
                flat(x)
    flat(out_c)
    if case["backward"]:
        live = [(y, u) for y, u in zip(flat_c, ups) if y.requires_grad]
        if len(flat_c) == len(ups) and live:
            torch.autograd.backward([y for y, _ in live], [u for _, u in live])
    graph = tm.scales_graph()
    n_float = 0
    fanout = False
    for node in graph.nodes:
        if node.op == "output":
            continue
        kind = cap.kinds.get(node.name)
        meta = node.meta
        if kind == "float":
            n_float += 1
            fanout = fanout or len(node.users) > 1
            mt = meta.get("metrics")
            if mt is None or not meta.get("outputs_float_tensor", False):
                ctx.violation(f"{key}:float-node-not-tracked", f"node {node.name} produces a float tensor but has no metrics", source=src)
                continue
            ctx.count("metrics:nodes-compared-fwd")
            bad = stats_match(mt.fwd, np_stats(cap.fwd[node.name]))
            if bad:
                ctx.violation(f"{key}:forward-metrics-are-not-the-statistics-of-the-tensor:{bad.split(' ')[0]}", f"node {node.name} ({node.target}): {bad}", source=src)
            gcap = cap.bwd.get(node.name)
            if case["backward"] and gcap is not None:
                ctx.count("metrics:nodes-compared-bwd")
                if mt.bwd is None:
                    ctx.violation(f"{key}:backward-metrics-missing", f"node {node.name}: a gradient reached this tensor but no backward metrics were recorded", source=src)
                else:
                    bad = stats_match(mt.bwd, np_stats(gcap))
                    if bad:
                        tag = "fan-out" if len(node.users) > 1 else "single-consumer"
                        ctx.violation(f"{key}:backward-metrics-are-not-the-statistics-of-the-total-gradient:{tag}:{bad.split(' ')[0]}",
                                      f"node {node.name} ({node.target}, {len(node.users)} consumers): {bad}", source=src)
            else:
                ctx.count("metrics:no-gradient-nodes")
                if mt.bwd is not None:
                    ctx.violation(f"{key}:backward-metrics-without-gradient", f"node {node.name}: no gradient reached it (backward run: {case['backward']}) but bwd metrics exist",
                                  source=src)
        elif kind in ("nonfloat", "other"):
            ctx.count("nonfloat:nodes-checked")
            if "metrics" in meta or meta.get("outputs_float_tensor", False):
                ctx.violation(f"{key}:non-float-value-instrumented", f"node {node.name} ({kind}) carries metrics", source=src)
    # ---- history: the SAME tracked module run again, forward only, on new data of the same shapes -----------------------
    if case["backward"]:
        ins2 = progs.make_inputs(prog, case["seed"] + 77)
        try:
            tm(*[t.detach().clone() for t in ins2])
        except Exception as e:
            ctx.violation(f"{key}:tracked-module-raises-on-second-call:{exc_key(e)}", repr(e), source=src)
            return
        ctx.count("history:second-forward-only-run")
        graph2 = tm.scales_graph()
        stale = [n.name for n in graph2.nodes if n.op != "output" and "metrics" in n.meta and n.meta["metrics"].bwd is not None]
        if stale:
            ctx.violation(f"{key}:backward-metrics-survive-from-an-earlier-run", f"second run was forward-only, yet {len(stale)} nodes report backward metrics, e.g. {stale[:4]}",
                          source=src)
        else:
            # forward metrics must describe the second run's tensors: compare input placeholders' statistics with the new inputs
            fl = [t for t in ins2 if t.is_floating_point()]
            ph = [n for n in graph2.nodes if n.op == "placeholder" and n.meta.get("outputs_float_tensor") and n.name.startswith("l_x")]
            for n, t in zip(ph, fl):
                bad = stats_match(n.meta["metrics"].fwd, np_stats(t))
                if bad:
                    ctx.violation(f"{key}:forward-metrics-not-refreshed-on-a-later-run", f"placeholder {n.name}: {bad}", source=src)
                    break
    # ---- history: a THIRD call in another grad mode (TorchDynamo compiles the module again): scales_graph() must describe it ----
    if case["backward"] and case["seed"] % 2 == 0:
        ins3 = progs.make_inputs(prog, case["seed"] + 177)
        try:
            with torch.no_grad():
                tm(*[t.detach().clone() for t in ins3])
        except Exception as e:
            ctx.violation(f"{key}:tracked-module-raises-on-a-later-no_grad-call:{exc_key(e)}", repr(e), source=src)
            return
        ctx.count("history:later-call-in-another-grad-mode")
        graph3 = tm.scales_graph()
        stale3 = [n.name for n in graph3.nodes if n.op != "output" and "metrics" in n.meta and n.meta["metrics"].bwd is not None]
        fl3 = [t for t in ins3 if t.is_floating_point()]
        ph3 = [n for n in graph3.nodes if n.op == "placeholder" and n.meta.get("outputs_float_tensor") and n.name.startswith("l_x")]
        bad3 = ""
        for n, t in zip(ph3, fl3):
            bad3 = stats_match(n.meta["metrics"].fwd, np_stats(t)) if "metrics" in n.meta else "no metrics"
            if bad3:
                break
        if stale3 or bad3:
            ctx.violation(f"{key}:scales_graph-describes-an-earlier-call-after-a-recompilation",
                          f"after a later no_grad call: {len(stale3)} nodes still report backward metrics; input placeholder statistics: {bad3 or 'ok'}", source=src)
    if n_float >= 3 and (fanout or case["backward"]):
        ctx.nontrivial(src + f"|bwd={case['backward']}|zeros={case['zeros']}")


def _max_fanout(prog) -> int:
    """Largest number of consumers of one autograd tensor; dropout(p=0) and in-place adds return their operand itself."""
    alias: Dict[str, str] = {}

    def root(v):
        while v in alias:
            v = alias[v]
        return v
    for o in prog["ops"]:
        if (o["op"] == "dropout" and (o["kw"].get("p") == 0.0 or not o["kw"].get("training", True))) or o["op"] in ("iadd", "relu_inplace_fn"):
            alias[o["out"]] = o["in"][0]
    cnt: Dict[str, int] = {}
    for o in prog["ops"]:
        if o["out"] in alias and o["op"] == "dropout":
            continue
        for x in o["in"]:  # every occurrence is one gradient contribution (x + x sends two)
            cnt[root(x)] = cnt.get(root(x), 0) + 1
    for x in prog["outputs"]:
        cnt[root(x)] = cnt.get(root(x), 0) + 1
    return max(cnt.values()) if cnt else 0


def run_analyse(case, ctx) -> None:
    import re

    import torch
    import unit_scaling.utils as UT
    from .. import progs
    from ..instruments import bits_equal

    ctx.count("evaluations")
    rng = rng_for(case["seed"], "prog")
    prog = progs.gen_program(rng, {"dtype": "float32", "max_ops": rng.choice([2, 4, 7]), "residual": rng.choice([0, 1]), "forms": ["uu"], "quant_focus": rng.random() < 0.5})
    if len(prog["outputs"]) != 1 or any(i["kind"] != "float" for i in prog["inputs"]) or any(o["op"] in ("sdpa", "iadd") for o in prog["ops"]):
        ctx.skip("program outside analyse_module's traceable subset")
        return
    if rng.random() < 0.6:
        # a constant parameter: its forward std is exactly 0 (a number, not "nothing recorded")
        prog["params"].append({"name": "p900", "shape": [prog["dims"]["D"]], "scale": 1.0, "const": 0.5})
        last = prog["outputs"][0]
        prog["ops"].append({"out": "v901", "op": "mul", "in": [last, "p900"], "kw": {}})
        prog["outputs"] = ["v901"]
    m, src = progs.build_module(prog, case["seed"])
    ctx.sample({"emitted_source": src, "kind": "analyse_module"})
    inputs = progs.make_inputs(prog, case["seed"] + 5)
    x = inputs[0].detach().clone().requires_grad_(True)
    captured: Dict[str, Any] = {}
    orig = UT._record_scales

    def spy(fx_graph_module, ins, backward=None):
        captured["gm"] = fx_graph_module
        scales = orig(fx_graph_module, ins, backward)
        captured["scales"] = scales
        return scales

    UT._record_scales = spy
    try:
        y0 = m(inputs[0].detach().clone())
        up = torch.randn(y0.shape, generator=torch.Generator().manual_seed(case["seed"] + 9), dtype=y0.dtype)
        try:
            code = UT.analyse_module(m, x, up, syntax_highlight=False)
        except Exception as e:
            # symbolic tracing cannot follow data-dependent control flow: not judged (counted)
            ctx.count("analyse_module:not-traceable")
            ctx.skip("not traceable by fx")
            return
    finally:
        UT._record_scales = orig
    ctx.count("analyse_module:checked")
    # gradients left behind equal a plain forward/backward
    m2, _ = progs.build_module(prog, case["seed"])
    x2 = inputs[0].detach().clone().requires_grad_(True)
    m2(x2).backward(up)
    for (k, p), (_, p2) in zip(m.named_parameters(), m2.named_parameters()):
        if (p.grad is None) != (p2.grad is None) or (p.grad is not None and not bits_equal(p.grad, p2.grad)):
            rel = float((p.grad - p2.grad).abs().max()) / max(float(p2.grad.abs().max()), 1e-30) if (p.grad is not None and p2.grad is not None) else 1.0
            why = ("rounding-level:accumulation-order-at-a-tensor-with-3-or-more-consumers" if _max_fanout(prog) >= 3 else "rounding-level:unexplained") if rel <= 1e-6 else "values-changed"
            ctx.violation(f"C18:analyse_module-changes-gradients:{why}", f"parameter {k}: .grad after analyse_module differs from a plain forward/backward (max rel diff {rel:.2e})", source=src)
            return
    if x.grad is None or not bits_equal(x.grad, x2.grad):
        rel = float((x.grad - x2.grad).abs().max()) / max(float(x2.grad.abs().max()), 1e-30) if x.grad is not None else 1.0
        why = ("rounding-level:accumulation-order-at-a-tensor-with-3-or-more-consumers" if _max_fanout(prog) >= 3 else "rounding-level:unexplained") if rel <= 1e-6 else "values-changed"
        ctx.violation(f"C18:analyse_module-changes-gradients:{why}", f"input gradient differs from a plain forward/backward (max rel diff {rel:.2e})", source=src)
        return
    # ScaleDict vs independently captured tensors
    gm = captured["gm"]
    cap = make_capture_interpreter()(gm)
    xc = inputs[0].detach().clone().requires_grad_(True)
    # parameters of gm are the module's own: clear grads, run, restore nothing (grads are not read afterwards)
    out = cap.run(xc)
    out.backward(up)
    n_cmp = 0
    for name, pair in captured["scales"].items():
        if name in cap.fwd:
            t = cap.fwd[name]
            if t.numel() > 1 and pair.forward is not None:
                want = float(t.double().std())
                if not abs(pair.forward - want) <= 2e-4 * abs(want) + 1e-6:
                    ctx.violation("C18:analyse_module-forward-scale-is-not-the-std", f"{name}: {pair.forward!r} vs {want!r}", source=src)
                n_cmp += 1
            gq = cap.bwd.get(name)
            if gq is not None and gq.numel() > 1 and pair.backward is not None:
                want = float(gq.double().std())
                if not abs(pair.backward - want) <= 2e-4 * abs(want) + 1e-6:
                    ctx.violation("C18:analyse_module-backward-scale-is-not-the-std-of-the-total-gradient", f"{name}: {pair.backward!r} vs {want!r}", source=src)
    # printed digits
    for mt in re.finditer(r"(\w+) = .*;  \(-> ([0-9.e+-]+|n/a|nan), <- ([0-9.e+-]+|n/a|nan)\)", code):
        name, f, b = mt.group(1), mt.group(2), mt.group(3)
        ctx.count("analyse_module:annotations-parsed")
        # "n/a" means "nothing recorded": a tensor that flowed (resp. received a gradient) must show a number, also when that number is 0
        if name in cap.fwd and f == "n/a":
            ctx.violation("C18:analyse_module-reports-no-forward-scale-for-a-tensor-that-flowed", f"{name}: printed '-> n/a' for a tensor of {cap.fwd[name].numel()} elements",
                          source=src)
        if name in cap.bwd and b == "n/a":
            ctx.violation("C18:analyse_module-reports-no-gradient-for-a-tensor-that-received-one", f"{name}: printed '<- n/a' although a gradient reached it", source=src)
        if name in cap.fwd and f != "n/a" and cap.fwd[name].numel() > 1:
            want = float(cap.fwd[name].double().std())
            if f"{want:.3}" != f and not abs(float(f) - want) <= 6e-3 * abs(want) + 1e-6:
                ctx.violation("C18:analyse_module-printed-scale-wrong", f"{name}: printed {f}, true std {want:.3}", source=src)
    if n_cmp >= 2:
        ctx.nontrivial("analyse|" + src)
