"""C15 - format simulation = straight-through quantisation exactly at matmul boundaries."""

from __future__ import annotations

from typing import Any, Dict, List

from ..common import derive_seed, exc_key, rng_for

PROPERTY = "C15"
LEVEL = "exploration"
RULE = ("'prim' cases: quantise_fwd / quantise_bwd on random tensors, formats and rounding modes (random source pinned). 'prog' cases: "
        "seeded programs (depth 1-12) over {linear with bias absent / positional / keyword, attention with mask absent / keyword / "
        "positional, causal, their unit-scaled forms, elementwise ops, norms, adds, reshapes}, float32, transformed by the real "
        "simulate_format / simulate_fp8 (TorchDynamo path) AND by the backend taken from module.backends applied to an "
        "fx.symbolic_trace of the same program; outputs and all input/parameter gradients are compared with an independent DSL "
        "interpreter that inserts hand-written straight-through quantisers (built on the caller's FPFormat objects) at linear / "
        "attention boundaries; FPFormat.quantise calls are logged (E, M, rounding, srbits). The lossless pair E8M23 must reproduce "
        "the untransformed module bit for bit. 'root' cases: the root module itself is a torch.nn layer. Every second program case calls the transformed module AGAIN after another transformed module made its first call (TorchDynamo reset -> recompilation): same quantise-call count, bit-identical outputs and gradients. 'repeat' cases: 12 fresh "
        "instances of ONE module class transformed in one process. Range-only formats (M=23, few exponent bits) included. Non-trivial = program has a "
        "linear or attention op and a lossy format; distinct = (emitted source, format pair). Every other program case calls the transformed module under torch.no_grad(): forward values equal those with autograd recording (1e-5) and quantise calls were made. A third of the cases feed a data batch (inputs without requires_grad), a fifth freeze some parameters, a quarter make a rejected call (wrong number of arguments, caught) before the first valid one.")
ASSUMPTIONS = ["FPFormat.quantise is as established by C13/C14", "torch.randint pinned by a shape-keyed deterministic source on both sides"]
IMPORTS = ["unit_scaling.formats", "unit_scaling.transforms._simulate_format", "unit_scaling.transforms.utils", "unit_scaling.transforms"]
REQUIRED_MONITORS = ["prim:checked", "programs:transformed", "outputs:compared", "grads:compared", "lossless:bit-compared", "fx-path:compared",
                     "quantise-log:calls", "root-layer:checked"]
REQUIRED_REACH = {"transforms/_simulate_format.py": ["_quantised_linear", "_quantised_scaled_dot_product_attention", "_replace_with_quantised",
                                                     "_quantisation_backend.<locals>.backend_fn", "simulate_format", "simulate_fp8"],
                  "formats.py": ["FPFormat.quantise_fwd", "FPFormat.quantise_bwd", "format_to_tuple", "tuple_to_format"]}
MIN_NONTRIVIAL = {"quick": 90, "thorough": 3000}
FORMS = ["bias_kw", "mask_pos", "uu", "linear_2arg"]


def _fmt_specs(rng):
    r = rng.random()
    if r < 0.2:
        return "fp8", None, None
    if r < 0.35:
        return "lossless", [8, 23, "nearest", 0], [8, 23, "nearest", 0]
    if r < 0.6:
        return "nearest", [4, 3, "nearest", 0], [5, 2, "nearest", 0]
    if r < 0.7:
        return "stochastic", [4, 3, "stochastic", rng.choice([0, 4])], [5, 2, "stochastic", rng.choice([0, 4])]
    E1, E2 = rng.randint(2, 6), rng.randint(3, 7)
    if rng.random() < 0.4:
        # range-only formats: full mantissa, few exponent bits (saturation and the subnormal grid are all that is simulated)
        return "range-only", [rng.randint(2, 3), 23, "nearest", 0], [rng.randint(2, 4), rng.choice([23, 23, 10]), "nearest", 0]
    return "random", [E1, rng.randint(0, 8), rng.choice(["nearest", "stochastic"]), 0], [E2, rng.randint(0, 6), rng.choice(["nearest", "stochastic"]), 0]


def gen_cases(tier: str, seed: int) -> List[Dict[str, Any]]:
    q = tier == "quick"
    cases: List[Dict[str, Any]] = []
    for i in range(10 if q else 200):
        cases.append({"kind": "prim", "seed": derive_seed(seed, PROPERTY, "prim", i) % (2**31), "n": 20})
    for i in range(256 if q else 12000):
        rng = rng_for(seed, PROPERTY, "prof", i)
        name, f, b = _fmt_specs(rng)
        cases.append({"kind": "prog", "seed": derive_seed(seed, PROPERTY, i) % (2**31), "fmt": name, "fwd": f, "bwd": b,
                      "profile": {"dtype": "float32", "max_ops": rng.choice([1, 3, 6, 12]), "residual": rng.choice([0, 0, 1, 2]),
                                  "forms": [x for x in FORMS if rng.random() < 0.5], "quant_focus": rng.random() < 0.7}})
    for i in range(4 if q else 40):
        cases.append({"kind": "repeat", "seed": derive_seed(seed, PROPERTY, "repeat", i) % (2**31), "n": 12})
    for i in range(8 if q else 120):
        rng = rng_for(seed, PROPERTY, "root", i)
        name, f, b = _fmt_specs(rng)
        cases.append({"kind": "root", "seed": derive_seed(seed, PROPERTY, "root", i) % (2**31), "fmt": name, "fwd": f, "bwd": b,
                      "layer": rng.choice(["nn.Linear", "nn.Linear", "uu.Linear"])})
    return cases


def mk_format(spec):
    from unit_scaling.formats import FPFormat

    E, M, rounding, srbits = spec
    return FPFormat(E, M, rounding=rounding, srbits=srbits) if rounding == "stochastic" else FPFormat(E, M, rounding=rounding)


def _grad(torch, outs, leaves, ups):
    """gradients of the outputs that are differentiable at all (an output computed from grad-free inputs alone is not)"""
    live = [(y, u) for y, u in zip(outs, ups) if y.requires_grad]
    if not live or not leaves:
        return tuple(None for _ in leaves)
    return torch.autograd.grad([y for y, _ in live], leaves, [u for _, u in live], allow_unused=True)


class QuantLog:
    """Observability: every real FPFormat.quantise call with the format fields actually used."""

    def __init__(self):
        self.calls: List[Any] = []

    def __enter__(self):
        from unit_scaling.formats import FPFormat

        self.F = FPFormat
        self.orig = FPFormat.quantise
        log = self.calls
        orig = self.orig

        def spy(fmt, x, *a, **k):
            log.append((fmt.exponent_bits, fmt.mantissa_bits, fmt.rounding, fmt.srbits, tuple(x.shape)))
            return orig(fmt, x, *a, **k)

        FPFormat.quantise = spy
        return self

    def __exit__(self, *a):
        self.F.quantise = self.orig


def run_case(case: Dict[str, Any], ctx) -> None:
    ctx.count("evaluations")
    if case["kind"] == "prim":
        return run_prim(case, ctx)
    if case["kind"] == "repeat":
        return run_repeat(case, ctx)
    import torch
    import torch._dynamo
    from torch import fx
    from unit_scaling.formats import FPFormat
    from unit_scaling.transforms import simulate_format, simulate_fp8
    from .. import progs
    from ..instruments import bits_equal, pinned_randint, shape_keyed_randint

    root_case = case["kind"] == "root"
    fmt_name = case["fmt"]
    if fmt_name == "fp8":
        fwd, bwd = FPFormat(4, 3), FPFormat(5, 2)  # the documented meaning of simulate_fp8
    else:
        fwd, bwd = mk_format(case["fwd"]), mk_format(case["bwd"])
    if root_case:
        import unit_scaling as uu
        torch.manual_seed(case["seed"])
        m = torch.nn.Linear(6, 5) if case["layer"] == "nn.Linear" else uu.Linear(6, 5, bias=True)
        with torch.no_grad():
            for p in m.parameters():
                p.copy_(torch.randn(p.shape, generator=torch.Generator().manual_seed(case["seed"])))
        prog = {"dtype": "float32", "inputs": [{"name": "x0", "kind": "float", "shape": [3, 6]}], "mods": [], "params": [],
                "ops": [], "outputs": []}
        src = f"root module: {case['layer']}(6, 5)"
        inputs = [torch.randn(3, 6, generator=torch.Generator().manual_seed(case["seed"] + 5))]
        feats = ["root-is-" + case["layer"]]
    else:
        rng = rng_for(case["seed"], "prog")
        prog = progs.gen_program(rng, case["profile"])
        feats = progs.features(prog)
        m, src = progs.build_module(prog, case["seed"])
        ctx.sample({"emitted_source": src})
        inputs = progs.make_inputs(prog, case["seed"] + 5)
    # a third of the cases feed a plain DATA batch (inputs without requires_grad): the gradient flowing into a linear's output must
    # still be quantised - it also feeds the weight / bias gradients
    req_in = root_case or case["seed"] % 3 != 0 or not any(p_.requires_grad for p_ in m.parameters())
    if not req_in:
        ctx.count("form:inputs-without-requires_grad")
    if not root_case and case["seed"] % 5 == 3:
        # some parameters FROZEN (a pretrained trunk): the remaining gradients still pass the backward quantisers
        plist_ = list(m.parameters())
        for j_, p_ in enumerate(plist_[1:]):
            if (case["seed"] >> (j_ % 20)) & 1:
                p_.requires_grad_(False)
        ctx.count("form:module-with-frozen-parameters")
        req_in = True  # (with frozen parameters the inputs carry the gradient: some output must stay differentiable)
    has_q = root_case or any(o["op"] in ("linear_f", "nn_linear", "uu_linear", "U_linear", "sdpa") for o in prog["ops"])
    try:
        sim = simulate_fp8(m) if fmt_name == "fp8" else simulate_format(m, fwd, bwd)
    except Exception as e:
        ctx.violation("C15:simulate_format-raises:" + exc_key(e), repr(e), source=src)
        return
    ctx.count("programs:transformed")
    if case["seed"] % 4 == 2 and not root_case:
        # history: a REJECTED call first (the caller passes a wrong number of arguments and catches the TypeError) - the
        # transformed module must simulate the formats on the next, valid call all the same
        try:
            sim()
            ctx.count("history:bad-call-was-not-rejected")
        except Exception:
            ctx.count("history:rejected-call-first")
    params = {k: v for k, v in sim.named_parameters()}
    torch._dynamo.utils.counters.clear()
    ins_u = [t.detach().clone().requires_grad_(req_in) if t.is_floating_point() else t.clone() for t in inputs]
    with QuantLog() as qlog, pinned_randint(shape_keyed_randint):
        try:
            out_u = sim(*ins_u)
            outs_u = list(out_u) if isinstance(out_u, (tuple, list)) else [out_u]
            g = torch.Generator().manual_seed(case["seed"] + 9)
            ups = [torch.randn(y.shape, generator=g, dtype=y.dtype) for y in outs_u]
            names = [f"input{i}" for i, t in enumerate(ins_u) if t.is_floating_point() and req_in] + [k for k in sorted(params) if params[k].requires_grad]
            leaves_u = [t for t in ins_u if t.is_floating_point() and req_in] + [params[k] for k in sorted(params) if params[k].requires_grad]
            gu = _grad(torch, outs_u, leaves_u, ups)
        except Exception as e:
            feat = [f for f in feats if f in ("F.linear:kw", "sdpa:mask-pos", "F.linear:none2")]
            ctx.violation("C15:transformed-module-raises:" + exc_key(e), f"{e!r}; features {feats}", source=src, fmt=fmt_name)
            return
    if sum(torch._dynamo.utils.counters["graph_break"].values()):
        ctx.count("excluded:graph-break")
        ctx.skip("graph break")
        return
    ctx.count("quantise-log:calls", len(qlog.calls))
    # ---- the formats actually used must be the caller's ---------------------------------------------
    allowed = {(f.exponent_bits, f.mantissa_bits, f.rounding, f.srbits) for f in (fwd, bwd)}
    used = {c[:4] for c in qlog.calls}
    lossless_pair = all(f.exponent_bits == 8 and f.mantissa_bits == 23 for f in (fwd, bwd))
    if has_q and not used and not lossless_pair:
        ctx.violation("C15:no-quantisation-applied:" + ("root-module-is-a-layer" if root_case else "container"),
                      "the transformed module never called FPFormat.quantise although it contains linear / attention operations", source=src, fmt=fmt_name)
    elif used - allowed:
        extra = sorted(used - allowed)
        what = "rounding-mode-or-srbits" if {(u[0], u[1]) for u in extra} <= {(a[0], a[1]) for a in allowed} else "exponent-or-mantissa-bits"
        ctx.violation(f"C15:quantises-with-a-format-the-caller-did-not-supply:{what}", f"used {extra}, supplied {sorted(allowed)}", source=src, fmt=fmt_name)
    # ---- reference: hand-quantised interpreter ------------------------------------------------------------
    pref = {k: v.detach().clone().requires_grad_(True) for k, v in params.items()}
    ins_r = [t.detach().clone().requires_grad_(req_in) if t.is_floating_point() else t.clone() for t in inputs]
    quant = progs.Quant(fwd, bwd)
    with pinned_randint(shape_keyed_randint):
        if root_case:
            import torch.nn.functional as F
            import unit_scaling.functional as U
            x, w = quant.q_fwd(ins_r[0]), quant.q_fwd(pref["weight"])
            y = F.linear(x, w, pref["bias"]) if case["layer"] == "nn.Linear" else U.linear(x, w, pref["bias"], m.constraint)
            outs_r = [quant.q_bwd(y)]
        else:
            mod_attrs = {md["name"]: {"constraint": "to_output_scale"} for md in prog["mods"] if md["type"] == "uu.Linear"}
            outs_r, _ = progs.interpret(prog, pref, ins_r, "plain", quant=quant, mod_attrs=mod_attrs)
        leaves_r = [t for t in ins_r if t.is_floating_point() and req_in] + [pref[k] for k in sorted(params) if params[k].requires_grad]
        gr = _grad(torch, outs_r, leaves_r, ups)
    if root_case:
        ctx.count("root-layer:checked")
    ctx.count("outputs:compared", len(outs_r))
    bad = None
    for i, (yu, yr) in enumerate(zip(outs_u, outs_r)):
        if tuple(yu.shape) != tuple(yr.shape):
            bad = f"output {i}: shape {tuple(yu.shape)} vs {tuple(yr.shape)}"
            break
        sc = max(float(yr.detach().abs().max()), 1e-30)
        err = float((yu.detach() - yr.detach()).abs().max()) / sc
        if not err <= 1e-5:
            bad = f"output {i}: rel err {err:.3e}"
            break
    if bad is None:
        ctx.count("grads:compared", len(gu))
        from ..instruments import grads_differ
        gd = grads_differ(gu, gr, 1e-5, names)
        if gd:
            bad = "gradient of " + gd
    key_feat = "root-module-is-a-layer" if root_case else "container"
    if bad:
        why = explain(prog, params, inputs, outs_u, gu, names, ups, fwd, bwd, root_case, case, m)
        ctx.violation(f"C15:differs-from-straight-through-quantised-reference:{why}", f"{bad}; format {fmt_name} {case.get('fwd')} / {case.get('bwd')}; features {feats}",
                      source=src, fmt=fmt_name)
    # ---- history: the SAME transformed module called again after ANOTHER transformed module made its first call (every first
    # call resets TorchDynamo, so this module is compiled a second time): it must still be the quantised computation ----------
    if not bad and not root_case and case["seed"] % 2 == 0:
        try:
            other = simulate_format(torch.nn.Sequential(torch.nn.Linear(3, 2)), FPFormat(5, 2, "nearest"), FPFormat(5, 2, "nearest"))
            other(torch.ones(2, 3))
            ins_2 = [t.detach().clone().requires_grad_(req_in) if t.is_floating_point() else t.clone() for t in inputs]
            with QuantLog() as qlog2, pinned_randint(shape_keyed_randint):
                out_2 = sim(*ins_2)
                outs_2 = list(out_2) if isinstance(out_2, (tuple, list)) else [out_2]
                leaves_2 = [t for t in ins_2 if t.is_floating_point() and req_in] + [params[k] for k in sorted(params) if params[k].requires_grad]
                g2 = _grad(torch, outs_2, leaves_2, ups)
        except Exception as e:
            ctx.violation("C15:transformed-module-raises-on-a-later-call:" + exc_key(e), repr(e), source=src, fmt=fmt_name)
            return
        ctx.count("history:called-again-after-another-module's-first-call")
        same = len(outs_2) == len(outs_u) and all(bits_equal(a.detach(), b.detach()) for a, b in zip(outs_2, outs_u)) and all(
            (a is None and b is None) or (a is not None and b is not None and bits_equal(a, b)) for a, b in zip(g2, gu))
        if not same or len(qlog2.calls) != len(qlog.calls):
            ctx.violation("C15:later-call-of-the-same-transformed-module-computes-something-else",
                          f"first call: {len(qlog.calls)} quantise calls; after another transformed module's first call: {len(qlog2.calls)} quantise calls, "
                          f"values {'equal' if same else 'differ'}", source=src, fmt=fmt_name)
            return
    # ---- inference: the same module called under torch.no_grad() (how a simulated-format model is evaluated) computes the same
    # forward values as with autograd recording ------------------------------------------------------------------------------
    if not bad and not root_case and case["seed"] % 2 == 1:
        try:
            with torch.no_grad(), QuantLog() as qlog3, pinned_randint(shape_keyed_randint):
                out_3 = sim(*[t.detach().clone() for t in inputs])
            outs_3 = list(out_3) if isinstance(out_3, (tuple, list)) else [out_3]
        except Exception as e:
            ctx.violation("C15:transformed-module-raises-under-no_grad:" + exc_key(e), repr(e), source=src, fmt=fmt_name)
            return
        ctx.count("history:called-under-no_grad")
        # (to 1e-5, not bit for bit: PyTorch itself picks other kernels for e.g. F.linear when its operands do not require grad;
        # a lost quantisation is a 1e-2 effect)
        same = len(outs_3) == len(outs_u) and all(
            float((a.detach() - b.detach()).abs().max()) <= 1e-5 * max(float(b.detach().abs().max()), 1e-30) for a, b in zip(outs_3, outs_u))
        if not same or (has_q and not lossless_pair and not qlog3.calls):
            ctx.violation("C15:no_grad-call-of-the-transformed-module-computes-something-else",
                          f"forward values under torch.no_grad() {'equal' if same else 'differ from'} those with autograd recording; quantise calls under no_grad: {len(qlog3.calls)}",
                          source=src, fmt=fmt_name)
            return
    # ---- lossless pair: bit-for-bit the untransformed module ---------------------------------------------
    if fmt_name == "lossless" and not bad:
        ins_o = [t.detach().clone().requires_grad_(req_in) if t.is_floating_point() else t.clone() for t in inputs]
        out_o = m(*ins_o)
        outs_o = list(out_o) if isinstance(out_o, (tuple, list)) else [out_o]
        po = {k: v for k, v in m.named_parameters()}
        go = _grad(torch, outs_o, [t for t in ins_o if t.is_floating_point() and req_in] + [po[k] for k in sorted(po) if po[k].requires_grad], ups)
        ctx.count("lossless:bit-compared")
        same = all(bits_equal(a.detach(), b.detach()) for a, b in zip(outs_u, outs_o)) and all(
            (a is None and b is None) or (a is not None and b is not None and bits_equal(a, b)) for a, b in zip(gu, go))
        if not same:
            ctx.violation("C15:lossless-format-changes-values", "E8M23 forward/backward: outputs or gradients are not bit-identical to the original module", source=src)
    # ---- the same backend on a hand-built FX graph -----------------------------------------------------
    if not root_case and not bad and not prog["mods"]:
        # (nn.Module calls stay call_module nodes in a plain symbolic trace - nothing to quantise: only pure-functional programs)
        try:
            gm = fx.symbolic_trace(progs.build_module(prog, case["seed"])[0])
            gm.load_state_dict({k: v.detach() for k, v in sim.state_dict().items()}, strict=False)
            backend = sim.backends[-1]
            ins_f = [t.detach().clone().requires_grad_(True) if t.is_floating_point() else t.clone() for t in inputs]
            with pinned_randint(shape_keyed_randint):
                gm2 = backend(gm, ins_f)
                out_f = gm2(*ins_f)
            outs_f = list(out_f) if isinstance(out_f, (tuple, list)) else [out_f]
            ctx.count("fx-path:compared")
            for yf, yr in zip(outs_f, outs_r):
                sc = max(float(yr.detach().abs().max()), 1e-30)
                if not float((yf.detach() - yr.detach()).abs().max()) / sc <= 1e-5:
                    ctx.violation("C15:fx-graph-path-differs-from-reference", "backend applied to fx.symbolic_trace gives different outputs", source=src, fmt=fmt_name)
                    break
        except Exception as e:
            # nn.Module calls stay call_module nodes in a plain symbolic trace: nothing to quantise there; only judge pure-functional programs
            if not prog["mods"]:
                ctx.violation("C15:fx-graph-path-raises:" + exc_key(e), repr(e), source=src)
            else:
                ctx.count("fx-path:not-applicable")
    if has_q and fmt_name != "lossless":
        ctx.nontrivial(src + "|" + fmt_name + str(case.get("fwd")) + str(case.get("bwd")))


def run_repeat(case, ctx) -> None:
    """History: the N-th transformed instance of the SAME module class in one process must still be quantised (TorchDynamo keeps
    per-code-object state across transforms)."""
    import torch
    from unit_scaling.formats import FPFormat
    from unit_scaling.transforms import simulate_format
    from .. import progs
    from ..instruments import pinned_randint, shape_keyed_randint

    rng = rng_for(case["seed"], "prog")
    prog = progs.gen_program(rng, {"dtype": "float32", "max_ops": 2, "residual": 1, "forms": [], "quant_focus": True})
    n_q = sum(1 for o in prog["ops"] if o["op"] in ("linear_f", "nn_linear", "sdpa"))
    if n_q == 0:
        ctx.skip("no linear / attention op")
        return
    fwd, bwd = FPFormat(4, 3, "nearest"), FPFormat(5, 2, "nearest")
    inputs = progs.make_inputs(prog, case["seed"] + 5)
    for k in range(case["n"]):
        m, src = progs.build_module(prog, case["seed"] + k)
        try:
            sim = simulate_format(m, fwd, bwd)
            with QuantLog() as qlog, pinned_randint(shape_keyed_randint):
                out = sim(*[t.clone() for t in inputs])
        except Exception as e:
            ctx.violation("C15:transformed-module-raises:" + exc_key(e), f"instance #{k + 1}: {e!r}", source=src)
            return
        outs = list(out) if isinstance(out, (tuple, list)) else [out]
        pref = {k2: v.detach() for k2, v in sim.named_parameters()}
        with torch.no_grad(), pinned_randint(shape_keyed_randint):
            outs_r, _ = progs.interpret(prog, pref, [t.clone() for t in inputs], "plain", quant=progs.Quant(fwd, bwd))
        ctx.count("history:instances-of-one-class-transformed")
        bad = any(float((a.detach() - b).abs().max()) > 1e-5 * max(float(b.abs().max()), 1e-30) for a, b in zip(outs, outs_r))
        if not qlog.calls or bad:
            ctx.violation("C15:quantisation-lost-after-many-transformed-instances-of-one-class",
                          f"instance #{k + 1} of the same module class: {'no quantise call' if not qlog.calls else 'values differ from the quantised reference'}", source=src)
            return
    ctx.nontrivial(f"repeat|{src}")


def explain(prog, params, inputs, outs_u, gu, names, ups, fwd, bwd, root_case, case, m) -> str:
    """Mechanism attribution by alternative (wrong) references; keys only."""
    import torch
    from unit_scaling.formats import FPFormat
    from .. import progs
    from ..instruments import pinned_randint, shape_keyed_randint

    def run(q) -> bool:
        try:
            pref = {k: v.detach().clone().requires_grad_(True) for k, v in params.items()}
            ins = [t.detach().clone().requires_grad_(True) if t.is_floating_point() else t.clone() for t in inputs]
            with pinned_randint(shape_keyed_randint):
                if root_case:
                    import torch.nn.functional as F
                    import unit_scaling.functional as U
                    if q is None:
                        y = F.linear(ins[0], pref["weight"], pref["bias"]) if case["layer"] == "nn.Linear" else U.linear(ins[0], pref["weight"], pref["bias"], m.constraint)
                    else:
                        x, w = q.q_fwd(ins[0]), q.q_fwd(pref["weight"])
                        y = q.q_bwd(F.linear(x, w, pref["bias"]) if case["layer"] == "nn.Linear" else U.linear(x, w, pref["bias"], m.constraint))
                    outs = [y]
                else:
                    outs, _ = progs.interpret(prog, pref, ins, "plain", quant=q)
                leaves = [t for t in ins if t.is_floating_point()] + [pref[k] for k in sorted(params)]
                gr = torch.autograd.grad(outs, leaves, ups, allow_unused=True)
            for a, b in zip(outs_u, outs):
                sc = max(float(b.detach().abs().max()), 1e-30)
                if not float((a.detach() - b.detach()).abs().max()) / sc <= 1e-5:
                    return False
            for a, b in zip(gu, gr):
                if a is None or b is None:
                    continue
                sc = max(float(b.abs().max()), 1e-30)
                if not float((a - b).abs().max()) / sc <= 1e-5:
                    return False
            return True
        except Exception:
            return False

    if run(None):
        return "no-quantisation-at-all" + (":root-module-is-a-layer" if root_case else "")
    d_f, d_b = FPFormat(fwd.exponent_bits, fwd.mantissa_bits), FPFormat(bwd.exponent_bits, bwd.mantissa_bits)
    if run(progs.Quant(d_f, d_b)):
        return "rounding-mode-and-srbits-of-the-supplied-formats-ignored"
    if run(progs.Quant(fwd, fwd)):
        return "gradient-quantised-to-the-forward-format"
    if run(progs.Quant(bwd, fwd)):
        return "formats-swapped"
    return "unexplained"


def run_prim(case, ctx) -> None:
    import torch
    from ..instruments import bits_equal, pinned_randint, shape_keyed_randint

    rng = rng_for(case["seed"])
    g = torch.Generator().manual_seed(case["seed"])
    for _ in range(case["n"]):
        E, M = rng.randint(2, 8), rng.randint(0, 23)
        rounding = rng.choice(["nearest", "stochastic"])
        fmt = mk_format([E, M, rounding, 0])
        shape = [rng.choice([1, 2, 3, 5]) for _ in range(rng.randint(0, 3))]
        scale = 10 ** rng.uniform(-3, 3) if E < 8 else 1.0
        x = (torch.randn(shape, generator=g) * scale).requires_grad_(True)
        up = torch.randn(shape, generator=g) * scale
        ctx.count("prim:checked")
        try:
            with pinned_randint(shape_keyed_randint):
                want_q = fmt.quantise(x.detach())
                want_g = fmt.quantise(up)
                y = fmt.quantise_fwd(x)
                (gx,) = torch.autograd.grad(y, x, up)
                x2 = x.detach().clone().requires_grad_(True)
                y2 = fmt.quantise_bwd(x2)
                (gx2,) = torch.autograd.grad(y2, x2, up)
        except Exception as e:
            ctx.violation("C15:primitive-raises:" + exc_key(e), repr(e), E=E, M=M, rounding=rounding, shape=shape)
            continue
        if not bits_equal(y.detach(), want_q):
            ctx.violation("C15:quantise_fwd-value-is-not-the-quantised-input", f"E{E}M{M} {rounding}", shape=shape)
        if not bits_equal(gx, up):
            ctx.violation("C15:quantise_fwd-changes-the-gradient", f"E{E}M{M} {rounding}", shape=shape)
        if not bits_equal(y2.detach(), x2.detach()):
            ctx.violation("C15:quantise_bwd-changes-the-forward-value", f"E{E}M{M} {rounding}", shape=shape)
        if not bits_equal(gx2, want_g):
            ctx.violation("C15:quantise_bwd-gradient-is-not-the-quantised-gradient", f"E{E}M{M} {rounding}", shape=shape)
        ctx.nontrivial(f"prim|E{E}M{M}|{rounding}|rank{len(shape)}")
