"""C04 - nonlinear ops stay near unit scale across their hyper-parameter range."""

from __future__ import annotations

import math
from typing import Any, Dict, List

from ..common import derive_seed, exc_key, loguniform, rng_for
from ..opcheck import rel_close

PROPERTY = "C04"
LEVEL = "exploration"
RULE = ("elementwise ops (gelu exact/tanh, silu, silu_glu): outputs and autograd derivatives of the REAL functions (constraint=None, "
        "float64) on a 240001-point quadrature grid over [-12,12] (Gauss-Hermite x grid tensor product for silu_glu), mult on a "
        "161-point log grid in [1/16,16] + end points + random; softmax / attention / cross_entropy / norms: RMS on fixed-seed "
        "N(0,1) tensors with >= 2^20 elements over log-uniform + corner hyper-parameters. Oracle: the bands of the statement, "
        "verbatim. Every point is non-trivial; distinct = (op, hyper-parameter tuple rounded to 3 digits). A third of the norm cases spread the normalised width over two trailing dims.")
ASSUMPTIONS = ["quadrature error < 1e-6; Monte-Carlo sampling error < 0.5% (>= 2^20 elements)", "bands are those of the statement"]
IMPORTS = ["unit_scaling.functional", "unit_scaling.core.functional"]
REQUIRED_MONITORS = ["band:elementwise", "band:silu_glu", "band:softmax", "band:attention", "band:cross_entropy", "band:norms", "exact:uniform-logits"]
REQUIRED_REACH = {"functional.py": ["gelu", "silu", "silu_glu", "softmax", "scaled_dot_product_attention", "cross_entropy", "layer_norm", "rms_norm"],
                  "core/functional.py": ["logarithmic_interpolation", "scale_elementwise"]}
MIN_NONTRIVIAL = {"quick": 250, "thorough": 3000}


def gen_cases(tier: str, seed: int) -> List[Dict[str, Any]]:
    q = tier == "quick"
    cases: List[Dict[str, Any]] = []
    grid = [2 ** (-4 + 8 * i / 160) for i in range(161)]
    if q:
        grid = grid[::4] + [grid[-1]]
    rng = rng_for(seed, PROPERTY, "elt")
    mults = sorted(set(grid + [1 / 16, 16.0, 1.0] + [loguniform(rng, 1 / 16, 16) for _ in range(10 if q else 200)]))
    for fn in ("gelu_none", "gelu_tanh", "silu", "silu_glu"):
        for i in range(0, len(mults), 8):
            cases.append({"kind": "elt", "fn": fn, "mults": mults[i:i + 8]})
    n = {"softmax": 60 if q else 900, "attention": 50 if q else 700, "cross_entropy": 60 if q else 900, "norms": 50 if q else 600}
    for kind, cnt in n.items():
        for i in range(cnt):
            r = rng_for(seed, PROPERTY, kind, i)
            c: Dict[str, Any] = {"kind": kind, "seed": derive_seed(seed, PROPERTY, kind, "s", i) % (2**31)}
            corner = i < 8
            if kind == "softmax":
                c["width"] = [16, 4096][i % 2] if corner else int(round(loguniform(r, 16, 4096)))
                c["mult"] = [1 / 8, 4.0][(i // 2) % 2] if corner else (1.0 if r.random() < 0.15 else loguniform(r, 1 / 8, 4))
                c["dim_last"] = (i // 4) % 2 == 0 if corner else r.random() < 0.6
            elif kind == "attention":
                c["seq"] = [16, 1024][i % 2] if corner else int(round(loguniform(r, 16, 1024)))
                c["d"] = [16, 128][(i // 2) % 2] if corner else int(round(loguniform(r, 16, 128)))
                c["mult"] = [0.25, 16.0][(i // 4) % 2] if corner else (1.0 if r.random() < 0.15 else loguniform(r, 0.25, 16))
                c["causal"] = r.random() < 0.5
                c["dropout_p"] = r.choice([0.0, 0.0, 0.1, 0.3, round(r.uniform(0, 0.3), 2)])
            elif kind == "cross_entropy":
                c["vocab"] = [2, 3, 4, 32768, 5, 8, 2, 1000][i] if corner else max(2, int(round(loguniform(r, 2, 32768))))
                c["mult"] = [4.0, 1.0, 1 / 16, 4.0, 4.0, 2.0, 1.0, 1 / 16][i] if corner else (1.0 if r.random() < 0.2 else loguniform(r, 1 / 16, 4))
                c["reduction"] = r.choice(["mean", "sum"])
            else:
                c["width"] = [16, 17, 4096, 16][i % 4] if corner else int(round(loguniform(r, 16, 4096)))
                c["fn"] = r.choice(["layer_norm", "rms_norm"])
                c["gain"] = r.random() < 0.5
                c["eps"] = r.choice([1e-5, 1e-5, 1e-6, 1e-3])
                c["split"] = r.choice([None, None, 2, 4, 8])  # normalised width spread over TWO trailing dims (split, width // split)
            cases.append(c)
    return cases


def band(ctx, key: str, what: str, value: float, lo: float, hi: float, **detail) -> None:
    ctx.stat(key.split(":", 1)[1], value)
    if not (lo <= value <= hi) or value != value:
        ctx.violation(key, f"{what} = {value:.4f} outside [{lo},{hi}]", **detail)


def run_case(case: Dict[str, Any], ctx) -> None:
    try:
        {"elt": run_elt, "softmax": run_softmax, "attention": run_attention, "cross_entropy": run_ce, "norms": run_norms}[case["kind"]](case, ctx)
    except Exception as e:
        ctx.violation(f"C04:{case['kind']}:raises:" + exc_key(e), repr(e), case=case)


def run_elt(case, ctx) -> None:
    import numpy as np
    import torch
    import unit_scaling.functional as U

    fn = case["fn"]
    for mult in case["mults"]:
        ctx.count("evaluations")
        if fn == "silu_glu":
            xs, ws = np.polynomial.hermite_e.hermegauss(12)
            ws = ws / math.sqrt(2 * math.pi)
            g = torch.linspace(-12, 12, 48001, dtype=torch.float64)
            wg = torch.exp(-0.5 * g * g) / math.sqrt(2 * math.pi) * (g[1] - g[0])
            inp = torch.tensor(xs, dtype=torch.float64)[:, None].expand(-1, g.numel()).clone().requires_grad_(True)
            gate = g[None, :].expand(len(xs), -1).clone().requires_grad_(True)
            W = torch.tensor(ws, dtype=torch.float64)[:, None] * wg[None, :]
            y = U.silu_glu(inp, gate, mult=mult)
            y.backward(torch.ones_like(y))
            m1 = float((W * y.detach()).sum())
            std = math.sqrt(max(float((W * y.detach() ** 2).sum()) - m1 * m1, 0))
            gi = math.sqrt(float((W * inp.grad**2).sum()))
            gg = math.sqrt(float((W * gate.grad**2).sum()))
            ctx.count("band:silu_glu", 3)
            band(ctx, "C04:silu_glu:output-std-outside-7pct", f"silu_glu(mult={mult:.4g}) output std", std, 0.93, 1.07, mult=mult)
            band(ctx, "C04:silu_glu:input-grad-rms-outside-7pct", f"silu_glu(mult={mult:.4g}) grad(input) RMS", gi, 0.93, 1.07, mult=mult)
            band(ctx, "C04:silu_glu:gate-grad-rms-outside-7pct", f"silu_glu(mult={mult:.4g}) grad(gate) RMS", gg, 0.93, 1.07, mult=mult)
        else:
            x = torch.linspace(-12, 12, 240001, dtype=torch.float64)
            w = torch.exp(-0.5 * x * x) / math.sqrt(2 * math.pi) * (x[1] - x[0])
            xr = x.clone().requires_grad_(True)
            if fn == "silu":
                y = U.silu(xr, mult=mult, constraint=None)
            else:
                y = U.gelu(xr, mult=mult, constraint=None, approximate=fn.split("_")[1])
            y.backward(torch.ones_like(y))
            m1 = float((w * y.detach()).sum())
            std = math.sqrt(max(float((w * y.detach() ** 2).sum()) - m1 * m1, 0))
            grms = math.sqrt(float((w * xr.grad**2).sum()))
            ctx.count("band:elementwise", 2)
            band(ctx, f"C04:{fn}:output-std-outside-7pct", f"{fn}(mult={mult:.4g}) output std", std, 0.93, 1.07, mult=mult)
            band(ctx, f"C04:{fn}:input-grad-rms-outside-7pct", f"{fn}(mult={mult:.4g}) input-gradient RMS", grms, 0.93, 1.07, mult=mult)
        ctx.nontrivial(f"{fn}|{mult:.4g}")


def _rms(t) -> float:
    return float(t.detach().double().pow(2).mean().sqrt())


def run_softmax(case, ctx) -> None:
    import torch
    import unit_scaling.functional as U

    ctx.count("evaluations")
    n, mult = case["width"], case["mult"]
    rows = max(2, -(-(2**20) // n))
    if rows == n:
        rows += 1
    gen = torch.Generator().manual_seed(case["seed"])
    shape, dim = ((rows, n), -1) if case["dim_last"] else ((n, rows), 0)
    x = torch.randn(shape, generator=gen, dtype=torch.float32).requires_grad_(True)
    up = torch.randn(shape, generator=gen, dtype=torch.float32)
    y = U.softmax(x, dim=dim, mult=mult, constraint=None)
    y.backward(up)
    ctx.count("band:softmax", 2)
    d = dict(width=n, mult=mult, dim=dim)
    band(ctx, "C04:softmax:output-rms-outside-band", f"softmax(width={n}, mult={mult:.3g}, dim={dim}) output RMS", _rms(y), 0.55, 1.35, **d)
    band(ctx, "C04:softmax:grad-rms-outside-band", f"softmax(width={n}, mult={mult:.3g}, dim={dim}) gradient RMS", _rms(x.grad), 0.55, 1.35, **d)
    ctx.nontrivial(f"softmax|{n}|{mult:.3g}|{dim}")


def run_attention(case, ctx) -> None:
    import torch
    import unit_scaling.functional as U

    ctx.count("evaluations")
    s, d, mult = case["seq"], case["d"], case["mult"]
    b = max(1, -(-(2**20) // (s * d)))
    gen = torch.Generator().manual_seed(case["seed"])
    torch.manual_seed(case["seed"])
    q, k, v = (torch.randn((b, 1, s, d), generator=gen, dtype=torch.float32).requires_grad_(True) for _ in range(3))
    up = torch.randn((b, 1, s, d), generator=gen, dtype=torch.float32)
    y = U.scaled_dot_product_attention(q, k, v, dropout_p=case["dropout_p"], is_causal=case["causal"], mult=mult)
    y.backward(up)
    ctx.count("band:attention", 2)
    dd = dict(seq=s, d_head=d, mult=mult, causal=case["causal"], dropout_p=case["dropout_p"])
    band(ctx, "C04:attention:output-rms-outside-band", f"attention{dd} output RMS", _rms(y), 0.7, 1.3, **dd)
    band(ctx, "C04:attention:value-grad-rms-outside-band", f"attention{dd} value-gradient RMS", _rms(v.grad), 0.7, 1.3, **dd)
    ctx.nontrivial(f"attention|{s}|{d}|{mult:.3g}|{case['causal']}|{case['dropout_p']}")


def run_ce(case, ctx) -> None:
    import torch
    import unit_scaling.functional as U

    ctx.count("evaluations")
    V, mult = case["vocab"], case["mult"]
    B = max(2, -(-(2**20) // V))
    gen = torch.Generator().manual_seed(case["seed"])
    x = torch.randn((B, V), generator=gen, dtype=torch.float32).requires_grad_(True)
    t = torch.randint(0, V, (B,), generator=gen)
    U.cross_entropy(x, t, reduction=case["reduction"], mult=mult).backward()
    ctx.count("band:cross_entropy")
    band(ctx, "C04:cross_entropy:logit-grad-rms-outside-band", f"cross_entropy(vocab={V}, mult={mult:.3g}) logit-gradient RMS", _rms(x.grad), 0.95, 1.45,
         vocab=V, mult=mult, reduction=case["reduction"])
    # uniform logits: exactly 1 (float64)
    Bu = 64 if V <= 4096 else 4
    for const in (0.0, 1.5):
        xu = torch.full((Bu, V), const, dtype=torch.float64, requires_grad=True)
        tu = torch.randint(0, V, (Bu,), generator=gen)
        U.cross_entropy(xu, tu, reduction=case["reduction"], mult=mult).backward()
        r = _rms(xu.grad)
        ctx.count("exact:uniform-logits")
        if not rel_close(r, 1.0, 1e-12):
            ctx.violation("C04:cross_entropy:uniform-logits-grad-rms-not-one", f"vocab={V}, mult={mult:.3g}: RMS={r!r}", vocab=V, mult=mult)
    ctx.nontrivial(f"ce|{V}|{mult:.3g}|{case['reduction']}")


def run_norms(case, ctx) -> None:
    import torch
    import unit_scaling.functional as U

    ctx.count("evaluations")
    n = case["width"]
    rows = max(2, -(-(2**20) // n))
    gen = torch.Generator().manual_seed(case["seed"])
    x = torch.randn((rows, n), generator=gen, dtype=torch.float32).requires_grad_(True)
    up = torch.randn((rows, n), generator=gen, dtype=torch.float32)
    gain = torch.ones(n, requires_grad=True) if case["gain"] else None
    ns = (n,)
    if case.get("split") and n % case["split"] == 0 and n // case["split"] >= 2:
        ns = (case["split"], n // case["split"])
        x = x.detach().reshape((rows,) + ns).requires_grad_(True)
        up = up.reshape((rows,) + ns)
        gain = torch.ones(ns, requires_grad=True) if case["gain"] else None
        ctx.count("form:multi-dim-normalized_shape")
    if case["fn"] == "layer_norm":
        y = U.layer_norm(x, ns, gain, torch.zeros(ns, requires_grad=True) if case["gain"] else None, case["eps"])
    else:
        y = U.rms_norm(x, ns, gain, case["eps"])
    y.backward(up)
    ctx.count("band:norms", 2)
    d = dict(width=n, fn=case["fn"], gain=case["gain"], eps=case["eps"])
    band(ctx, f"C04:{case['fn']}:output-rms-outside-10pct", f"{case['fn']}(width={n}) output RMS", _rms(y), 0.9, 1.1, **d)
    band(ctx, f"C04:{case['fn']}:input-grad-rms-outside-10pct", f"{case['fn']}(width={n}) input-gradient RMS", _rms(x.grad), 0.9, 1.1, **d)
    ctx.nontrivial(f"{case['fn']}|{n}|{case['gain']}|{case['eps']}")
