"""C05 - a constraint collapses forward/backward scales to one value; true gradients."""

from __future__ import annotations

import math
from fractions import Fraction
from typing import Any, Dict, List

from ..common import derive_seed, exc_key, loguniform, rng_for
from ..opcheck import rel_close

PROPERTY = "C05"
LEVEL = "exploration"
RULE = ("(a) 1-6 positive scales log-uniform in [1e-6,1e6] (+ extremes, equal values, permutations) pushed through "
        "gmean/hmean/amean/apply_constraint under icontract postconditions that recompute every rule in exact rational / "
        "50-digit decimal arithmetic; (b) unknown names: random identifiers, typos, and every attribute of the constraints "
        "module that is not a documented rule; (c) per constrained op and constraint name, scalars fitted under the "
        "constraint vs the rule applied (in the harness) to the scalars fitted under None; (d) torch.autograd.gradcheck "
        "on the constrained inputs. Non-trivial = scales not all equal (rules), constraint not None (ops); distinct by "
        "(kind, rule/op, constraint, shape signature or scale count+spread bucket). Attention also runs with dropout 0.1-0.5 and the mask pinned (generator re-seeded before the library call and before the reference call). A third of the configurations are first run once in bfloat16 / float16 (hidden state keyed by a scale value).")
ASSUMPTIONS = ["fractions/decimal arithmetic is exact to the stated digits", "torch.autograd.gradcheck finite differences (eps 1e-6)"]
IMPORTS = ["unit_scaling.constraints", "unit_scaling.functional", "unit_scaling.core.functional"]
REQUIRED_MONITORS = ["contract:gmean", "contract:hmean", "contract:amean", "contract:apply_constraint",
                     "contract:apply_constraint:in-library-call", "unknown-name:evaluated", "op:collapse-checked",
                     "gradcheck:run"]
REQUIRED_REACH = {"constraints.py": ["gmean", "hmean", "amean", "apply_constraint", "to_output_scale",
                                     "to_grad_input_scale", "to_left_grad_scale", "to_right_grad_scale"],
                  "core/functional.py": ["scale_elementwise"]}
MIN_NONTRIVIAL = {"quick": 200, "thorough": 30000}

RULES7 = ["gmean", "hmean", "amean", "to_output_scale", "to_grad_input_scale", "to_left_grad_scale", "to_right_grad_scale"]
COLLAPSE_OPS = ["gelu", "silu", "softmax", "matmul", "linear", "linear_readout", "conv1d", "add"]
FIXED_OPS = ["silu_glu", "scaled_dot_product_attention", "residual"]


def gen_cases(tier: str, seed: int) -> List[Dict[str, Any]]:
    q = tier == "quick"
    cases: List[Dict[str, Any]] = []
    n_rule_batches = 40 if q else 1000
    for i in range(n_rule_batches):
        cases.append({"kind": "rules", "n": 500 if q else 1000, "seed": derive_seed(seed, PROPERTY, "rules", i)})
    cases.append({"kind": "unknown", "seed": derive_seed(seed, PROPERTY, "unk"), "n_random": 200 if q else 5000})
    n_ops = 640 if q else 48000
    for i in range(n_ops):
        rng = rng_for(seed, PROPERTY, "op", i)
        names = COLLAPSE_OPS + FIXED_OPS
        fn = names[i % len(names)]
        cases.append({"kind": "op", "fn": fn, "i": i, "seed": derive_seed(seed, PROPERTY, "opseed", i) % (2**31),
                      "gradcheck": rng.random() < (0.5 if q else 0.3)})
    return cases


# ------------------------------------------------------------------ independent rules
def ref_amean(xs):
    return sum(Fraction(x) for x in xs) / len(xs)


def ref_hmean(xs):
    return len(xs) / sum(1 / Fraction(x) for x in xs)


def ref_gmean(xs):
    import decimal

    with decimal.localcontext() as c:
        c.prec = 60
        p = decimal.Decimal(1)
        for x in xs:
            p *= decimal.Decimal(x)  # exact conversion of the binary float
        return float(p ** (decimal.Decimal(1) / decimal.Decimal(len(xs))))


_CACHE: Dict[Any, float] = {}


def ref_rule(name, xs):
    k = (name, tuple(xs))
    v = _CACHE.get(k)
    if v is None:
        if len(_CACHE) > 200000:
            _CACHE.clear()
        v = _CACHE[k] = _ref_rule(name, list(xs))
    return v


def _ref_rule(name, xs):
    if name == "amean":
        return float(ref_amean(xs))
    if name == "hmean":
        return float(ref_hmean(xs))
    if name == "gmean":
        return ref_gmean(xs)
    if name == "to_output_scale":
        return xs[0]
    if name in ("to_grad_input_scale", "to_left_grad_scale"):
        return xs[1]
    if name == "to_right_grad_scale":
        return xs[2]
    raise KeyError(name)


class ContractBroken(Exception):
    pass


def setup(state: Dict[str, Any]) -> None:
    """Install icontract postconditions on the real rule functions in every namespace."""
    import icontract
    import unit_scaling.constraints as C
    from ..instruments import install

    counts: Dict[str, int] = {}
    viol: List[Dict[str, Any]] = []
    state["counts"], state["viol"] = counts, viol
    state["in_direct"] = [False]

    def bump(k):
        counts[k] = counts.get(k, 0) + 1

    def record(key, msg, **d):
        if len(viol) < 50:
            viol.append({"key": key, "msg": msg, "detail": d})

    def mk_mean_post(name):
        def post(_ARGS, result):
            bump(f"contract:{name}")
            xs = list(_ARGS)
            try:
                want = ref_rule(name, xs)
                if not rel_close(float(result), want, 1e-12):
                    record(f"C05:rule:{name}:wrong-value", f"{name}{tuple(xs)} = {result!r}, exact {want!r}", scales=xs)
                lo, hi = min(xs), max(xs)
                if not (lo * (1 - 1e-12) <= result <= hi * (1 + 1e-12)):
                    record(f"C05:rule:{name}:outside-min-max", f"{result!r} not in [{lo},{hi}]", scales=xs)
            except Exception as e:  # monitor bug must not masquerade as a verdict
                record("C05:monitor-error", repr(e))
            return True
        return post

    for name in ("gmean", "hmean", "amean"):
        orig = getattr(C, name)
        dec = icontract.ensure(mk_mean_post(name), error=ContractBroken)(orig)
        install(orig, dec)

    def ac_post(_ARGS, result):
        bump("contract:apply_constraint")
        if not state["in_direct"][0]:
            bump("contract:apply_constraint:in-library-call")
        name, xs = _ARGS[0], list(_ARGS[1:])
        if name is None or name == "":
            if tuple(result) != tuple(xs):
                record("C05:apply_constraint:none-changes-scales", f"{xs} -> {result}")
            return True
        if name not in RULES7:
            record("C05:apply_constraint:unknown-name-returned:" + _name_class(name), f"apply_constraint({name!r}, ...) returned {result!r}")
            return True
        if len(result) != len(xs):
            record("C05:apply_constraint:wrong-length", f"{len(xs)} scales in, {len(result)} out", name=name)
            return True
        if any(r != result[0] for r in result):
            record("C05:apply_constraint:not-collapsed", f"{name}: entries differ {result!r}", scales=xs)
        try:
            want = ref_rule(name, xs)
            if not rel_close(float(result[0]), want, 1e-12):
                record("C05:apply_constraint:wrong-value:" + name, f"{name}{tuple(xs)} -> {result[0]!r}, exact {want!r}", scales=xs)
        except IndexError:
            pass
        return True

    orig = C.apply_constraint
    state["install_count"] = install(orig, icontract.ensure(ac_post, error=ContractBroken)(orig))


def _name_class(name: str) -> str:
    import unit_scaling.constraints as C

    if hasattr(C, name):
        return "module-attribute"
    return "not-an-attribute"


def run_residual(case, ctx, rng) -> None:
    """residual_split / residual_add / residual_apply carry a fixed constraint: forward and backward weights are the same pair,
    so the gradient at the input must be the true derivative (finite differences) for every tau."""
    import math
    import torch
    import unit_scaling.functional as U

    ctx.count("evaluations")
    r = rng.random()
    tau = 1.0 if r < 0.1 else loguniform(rng, 1e-3, 1e3)
    d = rng.choice([2, 3, 5])
    shape = [rng.choice([1, 2, 3]) for _ in range(rng.randint(0, 2))] + [d]
    g = torch.Generator().manual_seed(case["seed"])
    W = torch.randn(d, d, generator=g, dtype=torch.float64) / math.sqrt(d)
    x = torch.randn(shape, generator=g, dtype=torch.float64, requires_grad=True)
    kind = rng.choice(["tanh_linear", "sin", "gelu"])
    fn = {"tanh_linear": lambda t: torch.tanh(t @ W.T), "sin": lambda t: torch.sin(2.0 * t), "gelu": lambda t: torch.nn.functional.gelu(t @ W.T)}[kind]
    for name, f in (("residual_apply", lambda t: U.residual_apply(fn, t, tau)),
                    ("split-f-add", lambda t: U.residual_add(fn(U.residual_split(t, tau)[0]), U.residual_split(t, tau)[1], tau))):
        ctx.count("gradcheck:run")
        ctx.count("op:collapse-checked")
        try:
            ok = torch.autograd.gradcheck(f, (x,), eps=1e-6, atol=1e-7, rtol=1e-5, raise_exception=False, fast_mode=True)
        except Exception as e:
            ctx.violation(f"C05:residual:gradcheck-raises:{exc_key(e)}", repr(e), tau=tau)
            return
        if not ok:
            ctx.violation(f"C05:residual:gradient-is-not-the-derivative:{name}", f"tau={tau}: analytical gradient disagrees with finite differences", tau=tau, branch=kind)
    ctx.nontrivial(f"op|residual|{kind}|{len(shape)}|{int(round(math.log10(tau) * 2))}")


def _flush(state, ctx) -> None:
    for k, v in state["counts"].items():
        ctx.count(k, v)
    state["counts"].clear()
    for v in state["viol"]:
        ctx.violation(v["key"], v["msg"], **v["detail"])
    state["viol"].clear()


def run_case(case: Dict[str, Any], ctx) -> None:
    st = ctx.state
    try:
        if case["kind"] == "rules":
            run_rules(case, ctx)
        elif case["kind"] == "unknown":
            run_unknown(case, ctx)
        else:
            run_op(case, ctx)
    finally:
        _flush(st, ctx)


def run_rules(case, ctx) -> None:
    import unit_scaling.constraints as C

    rng = rng_for(case["seed"])
    st = ctx.state
    for j in range(case["n"]):
        ctx.count("evaluations")
        n = rng.randint(1, 6)
        mode = rng.random()
        if mode < 0.1:
            xs = [loguniform(rng, 1e-6, 1e6)] * n
        elif mode < 0.2:
            xs = [rng.choice([1e-6, 1e6, 1.0]) for _ in range(n)]
        elif mode < 0.3:
            base = loguniform(rng, 1e-6, 1e6)
            xs = [min(1e6, max(1e-6, base * (1 + rng.uniform(-1e-9, 1e-9)))) for _ in range(n)]
        else:
            xs = [loguniform(rng, 1e-6, 1e6) for _ in range(n)]
        st["in_direct"][0] = True
        try:
            g, h, a = C.gmean(*xs), C.hmean(*xs), C.amean(*xs)
            slack = 1 + 1e-12
            if not (h <= g * slack and g <= a * slack):
                ctx.violation("C05:rule:ordering-hmean-gmean-amean", f"h={h!r} g={g!r} a={a!r}", scales=xs)
            perm = xs[:]
            rng.shuffle(perm)
            for name, v in (("gmean", g), ("hmean", h), ("amean", a)):
                pv = getattr(C, name)(*perm)
                if not rel_close(pv, v, 1e-12):
                    ctx.violation(f"C05:rule:{name}:not-symmetric", f"{v!r} vs permuted {pv!r}", scales=xs, perm=perm)
            valid = ["gmean", "hmean", "amean", "to_output_scale"]
            if n == 2:
                valid.append("to_grad_input_scale")
            if n == 3:
                valid += ["to_left_grad_scale", "to_right_grad_scale"]
            name = rng.choice(valid + [None, ""])
            out = C.apply_constraint(name, *xs)
            ctx.count("rules:apply_constraint-direct")
            if name in (None, "") and tuple(out) != tuple(xs):
                ctx.violation("C05:apply_constraint:none-changes-scales", f"{xs} -> {out}")
        except ContractBroken as e:  # never raised (conditions record and return True)
            ctx.violation("C05:contract-raised", repr(e))
        except Exception as e:
            ctx.violation("C05:rule:raises:" + exc_key(e), repr(e), scales=xs)
        finally:
            st["in_direct"][0] = False
        spread = "equal" if len(set(xs)) == 1 else ("tight" if max(xs) / min(xs) < 1.001 else "wide")
        if spread != "equal":
            ctx.nontrivial(f"rules|n={n}|{spread}|{int(math.log10(max(xs)))}|{int(math.log10(min(xs)))}")


def run_unknown(case, ctx) -> None:
    import unit_scaling.constraints as C

    rng = rng_for(case["seed"])
    st = ctx.state
    names = []
    for attr in dir(C):
        if attr not in RULES7:
            names.append(("module-attribute", attr))
    for r in RULES7:
        names.append(("typo", r + "s"))
        names.append(("typo", r.upper()))
        names.append(("typo", r[:-1]))
        names.append(("typo", " " + r))
        names.append(("typo", r.replace("_", "-")))
    alphabet = "abcdefghijklmnopqrstuvwxyz_"
    for _ in range(case["n_random"]):
        names.append(("random-identifier", "".join(rng.choice(alphabet) for _ in range(rng.randint(1, 12)))))
    for cat, name in names:
        if name in RULES7:
            continue
        for n in (2, 3):
            xs = [loguniform(rng, 1e-3, 1e3) for _ in range(n)]
            ctx.count("evaluations")
            ctx.count("unknown-name:evaluated")
            st["in_direct"][0] = True
            try:
                out = C.apply_constraint(name, *xs)
            except ValueError:
                ctx.count("unknown-name:ValueError")
                if cat != "random-identifier" or rng.random() < 0.02:
                    ctx.nontrivial(f"unknown|{cat}|{name}|{n}")
                continue
            except Exception as e:
                actual = "module-attribute" if hasattr(C, name) else cat
                ctx.violation(f"C05:unknown-name:{actual}:raises-{type(e).__name__}-not-ValueError",
                              f"apply_constraint({name!r}, ...) raised {e!r}", name=name, n=n)
                continue
            finally:
                st["in_direct"][0] = False
            actual = "module-attribute" if hasattr(C, name) else cat
            ctx.violation(f"C05:unknown-name:{actual}:silently-returns-a-value",
                          f"apply_constraint({name!r}, {xs}) returned {out!r} instead of raising ValueError", name=name, n=n)
    # the postcondition flags the same thing; drop its duplicates of this case
    st["viol"][:] = [v for v in st["viol"] if not v["key"].startswith("C05:apply_constraint:unknown-name-returned")]


def run_op(case, ctx) -> None:
    import torch
    import unit_scaling.functional as U
    from ..optable import OPS, run_fit

    rng = rng_for(case["seed"], "cfg")
    if case["fn"] == "residual":
        return run_residual(case, ctx, rng)
    op = OPS[case["fn"]]
    cfg = op.gen(rng)
    if case["fn"] == "add":
        while cfg["mode"] == "pyscalar":
            cfg = op.gen(rng)
    if case["fn"] == "scaled_dot_product_attention":
        # with dropout the mask is pinned (the harness re-seeds the generator before the library call and before the reference
        # call), so the forward / backward scalars can still be fitted; finite differences are only run without dropout
        cfg["dropout_p"] = rng.choice([0.0, 0.0, 0.1, 0.3, 0.5])
    seed = case["seed"]
    ctx.count("evaluations")
    N = run_fit(op, U, cfg, None if op.constraint_kind else "n/a", torch.float64, seed, seed + 1)
    if N.u_exc or N.ref_exc or N.ref_nonfinite or N.s_out is None:
        ctx.skip("unconstrained run not usable")
        return
    cons_inputs = [k for k in op.constrained if N.b.get(k) is not None]
    if len(cons_inputs) != len(op.constrained):
        ctx.skip("zero reference gradient")
        return
    base = [N.s_out] + [N.b[k] for k in cons_inputs]
    if case["fn"] in FIXED_OPS:
        ctx.count("op:collapse-checked")
        for k in cons_inputs:
            if not rel_close(N.b[k], N.s_out, 1e-11):
                ctx.violation(f"C05:{case['fn']}:fixed-constraint-not-collapsed:{k}", f"s_out={N.s_out!r} b_{k}={N.b[k]!r}", cfg=cfg)
        ctx.nontrivial(f"op|{case['fn']}|fixed|{sorted((k, str(v)) for k, v in cfg.items() if not isinstance(v, float))}")
        names: List[Any] = ["n/a"]
    else:
        names = [c for c in op.constraints() if c is not None]
        for name in names:
            ctx.count("evaluations")
            if seed % 3 == 0 and case["fn"] != "conv1d":
                # history: the SAME configuration is first run in a 16-bit dtype (hidden state keyed by the scale value - a
                # cache of scale tensors, a memoised factor - would carry the 16-bit rounding into the float64 run below)
                try:
                    run_fit(op, U, cfg, name, torch.bfloat16 if seed % 2 else torch.float16, seed, seed + 1)
                    ctx.count("history:16-bit-run-of-the-same-configuration-first")
                except Exception:
                    ctx.count("history:16-bit-run-raised")
            Cn = run_fit(op, U, cfg, name, torch.float64, seed, seed + 1)
            if Cn.u_exc is not None:
                ctx.violation(f"C05:{case['fn']}:valid-constraint-raises:{name}:{exc_key(Cn.u_exc)}", repr(Cn.u_exc), cfg=cfg)
                continue
            if Cn.res_out > 1e-10 or Cn.s_out is None:
                ctx.violation(f"C05:{case['fn']}:constrained-output-not-scalar-multiple:{name}", f"res={Cn.res_out:.2e}", cfg=cfg)
                continue
            want = ref_rule(name, base)
            ctx.count("op:collapse-checked")
            got = {"output": Cn.s_out, **{k: Cn.b[k] for k in cons_inputs}}
            for k, v in got.items():
                if v is None or not rel_close(v, want, 1e-10):
                    ctx.violation(f"C05:{case['fn']}:scale-not-rule-of-unconstrained:{name}:{k}",
                                  f"constraint {name}: {k} scale {v!r}, rule over unconstrained {base} gives {want!r}", cfg=cfg)
            for k in N.b:
                if k not in cons_inputs and N.b[k] is not None and Cn.b.get(k) is not None and not rel_close(N.b[k], Cn.b[k], 1e-10):
                    ctx.violation(f"C05:{case['fn']}:weight-or-bias-scale-changed-by-constraint:{k}",
                                  f"{k}: {N.b[k]!r} (None) vs {Cn.b[k]!r} ({name})", cfg=cfg)
            ctx.nontrivial(f"op|{case['fn']}|{name}|{sorted((k, str(v)) for k, v in cfg.items() if not isinstance(v, float))}")
    if case["gradcheck"] and not cfg.get("dropout_p"):
        gen = torch.Generator().manual_seed(seed)
        basein = op.build(cfg, gen, torch.float64)
        for name in names:
            inputs = {k: (v.detach().clone().requires_grad_(k in cons_inputs) if isinstance(v, torch.Tensor) and v.is_floating_point() else v)
                      for k, v in basein.items()}
            order = [k for k in cons_inputs]

            def f(*ts):
                a = dict(inputs)
                for k, t in zip(order, ts):
                    a[k] = t
                return op.call_u(U, a, cfg, name)

            ctx.count("gradcheck:run")
            try:
                ok = torch.autograd.gradcheck(f, tuple(inputs[k] for k in order), eps=1e-6, atol=1e-6, rtol=1e-4,
                                              raise_exception=False, check_batched_grad=False, nondet_tol=0.0, fast_mode=True)
            except Exception as e:
                ctx.violation(f"C05:{case['fn']}:gradcheck-raises:{exc_key(e)}", repr(e), cfg=cfg, constraint=name)
                continue
            if not ok:
                ctx.violation(f"C05:{case['fn']}:gradient-is-not-the-derivative:{name}",
                              "torch.autograd.gradcheck: analytical gradient disagrees with finite differences", cfg=cfg, constraint=name)
