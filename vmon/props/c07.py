"""C07 - transformer residual rule balances layer contributions at every depth."""

from __future__ import annotations

from fractions import Fraction
from typing import Any, Dict, List

from ..common import derive_seed, exc_key

PROPERTY = "C07"
LEVEL = "exploration"
RULE = ("rule cases: (depth L, residual_mult, residual_attn_ratio) over a rational grid in [1/16,16] (incl. 1); all 2L taus "
        "of a depth are recorded from the real closure and (1) compared with the closed form evaluated in Fraction "
        "arithmetic, (2) pushed, as the observed floats, through the residual mixing scheme in exact arithmetic to obtain the "
        "squared contributions. stack cases: TransformerStack/TransformerDecoder built with a spy rule returning sentinels. "
        "Non-trivial = L>=2 or mult/ratio != 1; distinct = (L, mult, ratio) resp. (class, layers). The rule factory is called with keywords, positionally and mixed; the default stack is also RUN with probe sub-layers (each emits one basis vector) under grad mode, no_grad and inference_mode, and the weight with which every branch reaches the output is compared with the rule.")
ASSUMPTIONS = ["fractions.Fraction arithmetic is exact", "isqrt-based rational square-root bracketing"]
IMPORTS = ["unit_scaling.core.functional", "unit_scaling._modules"]
REQUIRED_MONITORS = ["rule:taus-recorded", "rule:contribution-identities", "stack:spy-calls", "stack:attributes-checked"]
REQUIRED_REACH = {"core/functional.py": ["transformer_residual_scaling_rule", "transformer_residual_scaling_rule.<locals>._tau"],
                  "_modules.py": ["TransformerStack.__init__", "TransformerLayer.__init__"]}
MIN_NONTRIVIAL = {"quick": 500, "thorough": 50000}
EXHAUSTIVE = {"quick": False, "thorough": True}
EXHAUSTIVE_NOTE = {"thorough": "all depths 1..256 x the 17x17 rational grid {1/16..16} of (residual_mult, residual_attn_ratio)"}

GRID17 = [Fraction(1, 16), Fraction(1, 12), Fraction(1, 8), Fraction(1, 6), Fraction(1, 4), Fraction(1, 3), Fraction(1, 2),
          Fraction(3, 4), Fraction(1), Fraction(4, 3), Fraction(2), Fraction(3), Fraction(4), Fraction(6), Fraction(8),
          Fraction(12), Fraction(16)]
GRID7 = [Fraction(1, 16), Fraction(1, 3), Fraction(1, 2), Fraction(1), Fraction(2), Fraction(3), Fraction(16)]


def gen_cases(tier: str, seed: int) -> List[Dict[str, Any]]:
    cases: List[Dict[str, Any]] = []
    if tier == "quick":
        depths = [1, 2, 3, 4, 5, 6, 7, 8, 15, 16, 31, 32, 63, 64, 255, 256]
        grid = GRID7
        extra = [((seed * 7 + 3 * k) % 256) + 1 for k in range(4)]
        depths = sorted(set(depths + extra))
    else:
        depths = list(range(1, 257))
        grid = GRID17
    for L in depths:
        cases.append({"kind": "rule", "L": L, "grid": [[g.numerator, g.denominator] for g in grid]})
    # one rule object queried for several depths in sequence (a rule is a reusable callable: depth sweeps share it)
    for i in range(12 if tier == "quick" else 200):
        cases.append({"kind": "reuse", "seed": derive_seed(seed, PROPERTY, "reuse", i)})
    stack_layers = list(range(1, 13)) if tier == "quick" else list(range(1, 65))
    for n in stack_layers:
        cases.append({"kind": "stack", "layers": n, "cls": "TransformerStack"})
        if n <= (6 if tier == "quick" else 24):
            cases.append({"kind": "stack", "layers": n, "cls": "TransformerDecoder"})
    return cases


def _frac_sqrt_close(x2: Fraction, target: Fraction, rel: Fraction) -> bool:
    """sqrt(x2) == target within rel, decided on squares in exact arithmetic."""
    lo, hi = (target * (1 - rel)) ** 2, (target * (1 + rel)) ** 2
    return lo <= x2 <= hi


def run_case(case: Dict[str, Any], ctx) -> None:
    if case["kind"] == "rule":
        return run_rule(case, ctx)
    if case["kind"] == "reuse":
        return run_reuse(case, ctx)
    return run_stack(case, ctx)


def run_reuse(case, ctx) -> None:
    """History over one rule object: taus for a depth must not depend on which depths were asked before."""
    from unit_scaling.core.functional import transformer_residual_scaling_rule
    from ..common import rng_for

    rng = rng_for(case["seed"])
    mult, ratio = float(rng.choice(GRID7)), float(rng.choice(GRID7))
    shared = transformer_residual_scaling_rule(residual_mult=mult, residual_attn_ratio=ratio)
    depths = [rng.randint(1, 40) for _ in range(rng.randint(2, 5))]
    ctx.count("evaluations")
    for L in depths:
        fresh = transformer_residual_scaling_rule(residual_mult=mult, residual_attn_ratio=ratio)
        order = list(range(2 * L))
        if rng.random() < 0.5:
            rng.shuffle(order)
        for i in order:
            a, b = shared(i, 2 * L), fresh(i, 2 * L)
            ctx.count("rule:taus-recorded")
            if a != b:
                ctx.violation("C07:rule:tau-depends-on-earlier-queries-of-the-same-rule-object",
                              f"depths asked so far {depths}, now L={L}, index {i}: shared rule gives {a!r}, a fresh rule {b!r}", mult=mult, ratio=ratio)
                return
    ctx.nontrivial(f"reuse|{mult}|{ratio}|{depths}")


def run_rule(case, ctx) -> None:
    import unit_scaling as uu
    from unit_scaling.core.functional import transformer_residual_scaling_rule

    L = case["L"]
    ulp4 = Fraction(4, 2**52)
    for mn, md in case["grid"]:
        for rn, rd in case["grid"]:
            ctx.count("evaluations")
            mult, ratio = Fraction(mn, md), Fraction(rn, rd)
            try:
                # call form of the public factory: keywords, positional (documented order: multiplier, then ratio), mixed
                form = (mn * 7 + rn * 3 + md + rd + L) % 3
                if form == 0:
                    fn = transformer_residual_scaling_rule(residual_mult=float(mult), residual_attn_ratio=float(ratio))
                elif form == 1:
                    fn = transformer_residual_scaling_rule(float(mult), float(ratio))
                else:
                    fn = transformer_residual_scaling_rule(float(mult), residual_attn_ratio=float(ratio))
                ctx.count(["form:keywords", "form:positional", "form:mixed"][form])
                taus = [fn(i, 2 * L) for i in range(2 * L)]
            except Exception as e:
                ctx.violation("C07:rule:raises:" + exc_key(e), repr(e), L=L, mult=str(mult), ratio=str(ratio))
                continue
            ctx.count("rule:taus-recorded", len(taus))
            # The library sees float(mult), float(ratio): use exactly those rationals.
            fm, fr_ = Fraction(float(mult)), Fraction(float(ratio))
            a_mlp2 = 2 * fm * fm / (1 + fr_ * fr_)
            a_attn2 = fr_ * fr_ * a_mlp2
            bad = False
            for i, t in enumerate(taus):
                if not isinstance(t, float) or not (t > 0):
                    ctx.violation("C07:rule:tau-not-positive-float", f"tau[{i}]={t!r}", L=L, mult=str(mult), ratio=str(ratio))
                    bad = True
                    break
                n_attn, n_mlp = (i + 1) // 2, i // 2
                want2 = (a_attn2 if i % 2 == 0 else a_mlp2) / (Fraction(L) + n_attn * a_attn2 + n_mlp * a_mlp2)
                t2 = Fraction(t) ** 2
                # |t - want| <= ~8 ulp  <=>  t^2 within (1 +- 2^-48) of want^2 (decided exactly)
                if not (want2 * (1 - Fraction(1, 2**47)) <= t2 <= want2 * (1 + Fraction(1, 2**47))):
                    ctx.violation("C07:rule:tau-differs-from-closed-form",
                                  f"tau[{i}] of {2*L} = {t!r}, exact tau^2 = {float(want2)!r}", L=L, mult=str(mult), ratio=str(ratio), index=i)
                    bad = True
                    break
            if bad:
                continue
            # (2) push the OBSERVED floats through the residual scheme, exactly, on squares:
            # x_{k+1} = (x_k + tau f)/sqrt(1+tau^2): every earlier squared contribution is divided by (1+tau^2),
            # the new branch contributes tau^2/(1+tau^2).  60-digit decimal arithmetic (exact inputs).
            import decimal

            with decimal.localcontext() as dc:
                dc.prec = 60
                D = decimal.Decimal
                t2s = [D(t) * D(t) for t in taus]  # exact conversion of the observed floats
                # suffix products of 1/(1+tau^2)
                suffix = [D(1)] * (len(t2s) + 1)
                for k in range(len(t2s) - 1, -1, -1):
                    suffix[k] = suffix[k + 1] / (1 + t2s[k])
                emb2 = suffix[0]
                layers2 = [t2s[k] / (1 + t2s[k]) * suffix[k + 1] for k in range(len(t2s))]
                attn2, mlp2 = layers2[0::2], layers2[1::2]
                ctx.count("rule:contribution-identities")
                rel = D(10) ** -12
                tot = emb2 + sum(layers2)
                if abs(tot - 1) > D(10) ** -40:
                    ctx.violation("C07:rule:squares-do-not-sum-to-one", f"sum={float(tot)!r}", L=L)
                for name, grp in (("attention", attn2), ("mlp", mlp2)):
                    lo, hi = min(grp), max(grp)
                    if hi > lo * (1 + 4 * rel):
                        ctx.violation(f"C07:rule:{name}-layers-contribute-unequally", f"min {float(lo)!r} max {float(hi)!r}",
                                      L=L, mult=str(mult), ratio=str(ratio))
                sa, sm = sum(attn2), sum(mlp2)
                dr, dm = D(float(ratio)), D(float(mult))
                got_ratio = (sa / sm).sqrt()
                if abs(got_ratio - dr) > rel * dr:
                    ctx.violation("C07:rule:attn-mlp-ratio-wrong", f"observed {float(got_ratio)!r}, requested {float(dr)!r}",
                                  L=L, mult=str(mult), ratio=str(ratio))
                got_mult = (((sa + sm) / 2) / emb2).sqrt()
                if abs(got_mult - dm) > rel * dm:
                    ctx.violation("C07:rule:residual-multiplier-wrong",
                                  f"sqrt((sum_attn c^2 + sum_mlp c^2)/2)/c_emb = {float(got_mult)!r}, requested {float(dm)!r}",
                                  L=L, mult=str(mult), ratio=str(ratio))
            if L >= 2 or mult != 1 or ratio != 1:
                ctx.nontrivial(f"rule|{L}|{mult}|{ratio}")


def run_stack(case, ctx) -> None:
    import unit_scaling as uu
    from unit_scaling import _modules as M
    from unit_scaling.core.functional import transformer_residual_scaling_rule

    n = case["layers"]
    calls: List[Any] = []

    def spy(index: int, layers: int) -> float:
        calls.append((index, layers))
        return float(index + 1000 * layers)

    ctx.count("evaluations")
    try:
        if case["cls"] == "TransformerStack":
            stack = M.TransformerStack(layers=n, residual_scaling=spy, hidden_size=8, heads=2, is_causal=True)
            default = M.TransformerStack(layers=n, hidden_size=8, heads=2, is_causal=True)
        else:
            dec = uu.TransformerDecoder(hidden_size=8, vocab_size=11, layers=n, heads=2, residual_scaling=spy)
            stack = dec.layers
            default = uu.TransformerDecoder(hidden_size=8, vocab_size=11, layers=n, heads=2).layers
    except Exception as e:
        ctx.violation("C07:stack:raises:" + exc_key(e), repr(e), case=case)
        return
    ctx.count("stack:spy-calls", len(calls))
    want_calls = [(j, 2 * n) for j in range(2 * n)]
    if calls != want_calls:
        key = "C07:stack:rule-called-with-wrong-arguments"
        if sorted(calls) == want_calls:
            key = "C07:stack:rule-called-out-of-order"
        ctx.violation(key, f"calls {calls[:8]}..., expected {want_calls[:8]}...", layers=n, cls=case["cls"])
    if len(stack) != n:
        ctx.violation("C07:stack:wrong-number-of-layers", f"{len(stack)} != {n}")
        return
    ref = transformer_residual_scaling_rule()
    for i, layer in enumerate(stack):
        ctx.count("stack:attributes-checked", 2)
        if layer.mhsa_tau != float(2 * i + 1000 * 2 * n) or layer.mlp_tau != float(2 * i + 1 + 1000 * 2 * n):
            ctx.violation("C07:stack:tau-assigned-to-wrong-layer",
                          f"layer {i}: mhsa_tau={layer.mhsa_tau} mlp_tau={layer.mlp_tau} (sentinel = index + 1000*layers)", layers=n, cls=case["cls"])
            break
    for i, layer in enumerate(default):
        if layer.mhsa_tau != ref(2 * i, 2 * n) or layer.mlp_tau != ref(2 * i + 1, 2 * n):
            ctx.violation("C07:stack:default-rule-taus-differ-from-direct-rule-call",
                          f"layer {i}: ({layer.mhsa_tau},{layer.mlp_tau}) vs ({ref(2*i,2*n)},{ref(2*i+1,2*n)})", layers=n, cls=case["cls"])
            break
    # ---- the residual scheme as it is actually APPLIED: run the default stack with probe sub-layers -----------------------
    if n <= 10:
        import math
        import torch

        H = 2 * n + 1

        class Probe(torch.nn.Module):
            """stands in for an attention / MLP block: emits basis vector e_k whatever it is fed, so the weight with which branch k
            reaches the output can be read off coordinate k"""

            def __init__(self, k):
                super().__init__()
                self.k = k

            def forward(self, x):
                out = torch.zeros_like(x)
                out[..., self.k] = 1.0
                return out

        try:
            probe_stack = M.TransformerStack(layers=n, hidden_size=H, heads=1, is_causal=False)
            taus = []
            for i, layer in enumerate(probe_stack):
                layer.mhsa, layer.mlp = Probe(2 * i + 1), Probe(2 * i + 2)
                taus += [ref(2 * i, 2 * n), ref(2 * i + 1, 2 * n)]
            if n % 2 == 0:
                # history: the stack is cast to a lower-precision dtype and back (module.half() / .to(bfloat16) then .double())
                # before it is used - the taus are hyper-parameters, not tensors to be rounded with the weights
                probe_stack = probe_stack.to(torch.bfloat16) if n % 4 == 0 else probe_stack.half()
                ctx.count("history:stack-cast-to-lower-precision-and-back")
                for i, layer in enumerate(probe_stack):
                    if layer.mhsa_tau != taus[2 * i] or layer.mlp_tau != taus[2 * i + 1]:
                        ctx.violation("C07:stack:taus-changed-by-a-dtype-conversion-of-the-module",
                                      f"layer {i}: ({layer.mhsa_tau!r}, {layer.mlp_tau!r}) after the cast, rule gives ({taus[2 * i]!r}, {taus[2 * i + 1]!r})", layers=n)
                        break
            probe_stack = probe_stack.double().eval()
            x = torch.zeros(1, 1, H, dtype=torch.float64)
            x[..., 0] = 1.0
            # expected weights from the rule's taus (checked against exact arithmetic in the 'rule' cases): branch k enters with
            # tau_k / sqrt(1 + tau_k^2) and is then multiplied by 1 / sqrt(1 + tau_j^2) of every later branch j
            want = [1.0] + [0.0] * (2 * n)
            for k, t in enumerate(taus):
                d = math.sqrt(1 + t * t)
                want = [w / d for w in want]
                want[k + 1] = t / d
            for mode_name, mode in (("grad-mode", torch.enable_grad), ("no_grad", torch.no_grad), ("inference_mode", torch.inference_mode)):
                with mode():
                    y = probe_stack(x.clone())
                got = [float(v) for v in y.reshape(-1)]
                ctx.count("stack:applied-contributions-compared", len(got))
                worst = max(abs(g - w) for g, w in zip(got, want))
                if worst > 1e-12:
                    k = max(range(len(got)), key=lambda j: abs(got[j] - want[j]))
                    ctx.violation(f"C07:stack:applied-contributions-differ-from-the-rule:{mode_name}",
                                  f"{n} layers: branch {k} ({'embedding' if k == 0 else 'attention' if k % 2 else 'MLP'}) reaches the output with weight "
                                  f"{got[k]!r}, the rule gives {want[k]!r}", layers=n, cls=case["cls"])
                    break
        except Exception as e:
            ctx.violation("C07:stack:probe-run-raises:" + exc_key(e), repr(e), layers=n)
    ctx.nontrivial(f"stack|{case['cls']}|{n}")
