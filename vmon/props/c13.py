"""C13 - nearest-rounding quantisation returns the nearest representable value."""

from __future__ import annotations

import math
from typing import Any, Dict, List

from ..common import derive_seed, exc_key, rng_for

PROPERTY = "C13"
LEVEL = "exploration"
RULE = ("all 168 formats E 2..8 x M 0..23; per format: every representable value (or a sample when there are > 2^16), every midpoint, "
        "their +-4-ulp float32 neighbours, random mantissas for every float32 exponent, +-0, +-inf, +-max and beyond; plus 'shape' cases "
        "(rank 0-3, empty, non-contiguous, float64/bfloat16/float16 tensors with formats exactly representable in the dtype). Thorough "
        "adds every one of the 2^32 float32 bit patterns for E4M3 and E5M2. Oracle: independent exact format arithmetic (I8). "
        "Non-trivial = input not representable in the format; distinct = (format, input class) pairs, counted per class.")
ASSUMPTIONS = ["float64 arithmetic on float32-representable values is exact", "oracle self-checked against Fraction tables and the repository's own literals"]
IMPORTS = ["unit_scaling.formats"]
REQUIRED_MONITORS = ["inputs:judged", "inputs:non-representable", "sanitizer:argument-unmodified", "idempotence:checked", "monotone:checked",
                     "symmetry:checked", "range-properties:checked", "shape-dtype:checked"]
REQUIRED_REACH = {"formats.py": ["FPFormat.quantise", "FPFormat.max_absolute_value", "FPFormat.min_absolute_normal", "FPFormat.min_absolute_subnormal"]}
MIN_NONTRIVIAL = {"quick": 250, "thorough": 600}
EXHAUSTIVE = {"quick": False, "thorough": True}
EXHAUSTIVE_NOTE = {"thorough": "every float32 bit pattern (2^32, NaNs excluded) for E4M3 and E5M2"}
WATCHDOG = {"quick": 1800, "thorough": 4 * 3600}


def gen_cases(tier: str, seed: int) -> List[Dict[str, Any]]:
    cases: List[Dict[str, Any]] = []
    nrand = 2**9 if tier == "quick" else 2**14
    for E in range(2, 9):
        for M in range(0, 24):
            cases.append({"kind": "values", "E": E, "M": M, "nrand": nrand, "seed": derive_seed(seed, PROPERTY, E, M) % (2**31)})
    n_shape = 200 if tier == "quick" else 3000
    for i in range(n_shape):
        cases.append({"kind": "shape", "i": i, "seed": derive_seed(seed, PROPERTY, "shape", i) % (2**31)})
    if tier == "thorough":
        for (E, M) in ((4, 3), (5, 2)):
            for chunk in range(256):
                cases.append({"kind": "exhaustive", "E": E, "M": M, "chunk": chunk})
    return cases


def setup(state: Dict[str, Any]) -> None:
    from ..oracles import fpformat_exact as O

    O.self_check()
    state["oracle_checked"] = True


def _inputs_for(E: int, M: int, nrand: int, seed: int):
    import torch
    from ..oracles import fpformat_exact as O

    g = torch.Generator().manual_seed(seed)
    mx = O.max_value(E, M)
    parts = []
    # representable magnitudes
    if E + M <= 16:
        tab = torch.tensor([float(v) for v in O.table(E, M)], dtype=torch.float64)
    else:
        n = 2**14
        e = torch.randint(O.emin(E), O.emax(E) + 1, (n,), generator=g)
        m = torch.randint(0, 2**M, (n,), generator=g).double()
        normals = torch.ldexp(1 + m / 2**M, e)
        subs = torch.ldexp(torch.randint(0, 2**M, (n // 4,), generator=g).double(), torch.full((n // 4,), O.emin(E) - M))
        edge = torch.tensor([0.0, mx, O.min_normal(E), O.min_subnormal(E, M), mx - (mx - mx / 2) * 2.0 ** -M], dtype=torch.float64)
        tab = torch.unique(torch.cat([normals, subs, edge]))
    lo, up, sp = O.neighbours(tab, E, M)
    nxt = torch.clamp(tab + sp, max=mx)
    mids = (tab + nxt) / 2
    base = torch.cat([tab, mids])
    base32 = base.to(torch.float32)
    base32 = base32[base32.double() == base]  # only values exactly representable in float32 (midpoints need M <= 22)
    bits = base32.view(torch.int32)
    nb = [bits + k for k in range(-4, 5)]
    parts.append(torch.cat(nb).view(torch.float32))
    # random mantissas for every float32 exponent field (0 = subnormals .. 254)
    top = 254 if E < 8 else 126 + 126  # E = 8: |x| < 2^126  <=> exponent field <= 252
    fields = torch.arange(0, top + 1, dtype=torch.int32).repeat_interleave(nrand)
    mant = torch.randint(0, 2**23, (fields.numel(),), generator=g, dtype=torch.int32)
    parts.append(((fields << 23) | mant).view(torch.float32))
    specials = [0.0, mx, mx * (1 + 2.0**-20), 3.0e38 if E < 8 else mx / 4]
    if E < 8:
        specials.append(float("inf"))
    parts.append(torch.tensor(specials, dtype=torch.float32))
    x = torch.cat(parts)
    x = x[torch.isfinite(x) | torch.isinf(x)]
    x = x[~torch.isnan(x)]
    if E == 8:
        x = x[x.abs() < 2.0**126]
    x = torch.cat([x, -x])
    return x


def judge(fmt, E: int, M: int, x, ctx, tag: str) -> None:
    """x: float32 tensor of finite (or infinite) inputs. All oracle arithmetic in float64."""
    import torch
    from ..oracles import fpformat_exact as O

    key = f"C13:nearest"
    ver, keep = x._version, x.clone()
    try:
        q = fmt.quantise(x)
    except Exception as e:
        ctx.violation(f"{key}:raises:{exc_key(e)}", repr(e), E=E, M=M, tag=tag)
        return
    ctx.count("sanitizer:argument-unmodified")
    if x._version != ver or not torch.equal(x.view(torch.int32), keep.view(torch.int32)):
        ctx.violation(f"{key}:argument-modified", "quantise changed its argument", E=E, M=M)
    if q.shape != x.shape or q.dtype != x.dtype:
        ctx.violation(f"{key}:shape-or-dtype-changed", f"{tuple(q.shape)} {q.dtype} for input {tuple(x.shape)} {x.dtype}", E=E, M=M)
        return
    mx = O.max_value(E, M)
    xd, qd = x.double(), q.double()
    ax = torch.clamp(xd.abs(), max=mx)
    aq = qd.abs()
    lo, up, sp = O.neighbours(ax, E, M)
    n = x.numel()
    ctx.count("inputs:judged", n)
    nonrep = int((lo != up).sum())
    ctx.count("inputs:non-representable", nonrep)

    def first(mask):
        i = int(torch.nonzero(mask.reshape(-1))[0])
        return {"x": float(xd.reshape(-1)[i]), "x_hex": float(xd.reshape(-1)[i]).hex(), "q": float(qd.reshape(-1)[i]),
                "lower": float(lo.reshape(-1)[i]), "upper": float(up.reshape(-1)[i])}

    bad = ~torch.isfinite(qd)
    if bool(bad.any()):
        ctx.violation(f"{key}:non-finite-output", "output not finite", E=E, M=M, tag=tag, **first(bad))
        return
    bad = (aq != lo) & (aq != up)
    if bool(bad.any()):
        sat = bad & (xd.abs() > mx)
        which = "not-saturated-to-max" if bool(sat.any()) else "not-a-neighbour"
        ctx.violation(f"{key}:{which}", f"{int(bad.sum())} of {n} outputs are neither representable neighbour of the (clamped) input", E=E, M=M, tag=tag,
                      **first(sat if bool(sat.any()) else bad))
        return
    sgn_bad = torch.signbit(q) != torch.signbit(x)
    if bool(sgn_bad.any()):
        ctx.violation(f"{key}:sign-not-preserved", f"{int(sgn_bad.sum())} outputs changed sign (incl. signed zeros)", E=E, M=M, tag=tag, **first(sgn_bad))
    err = (aq - ax).abs()
    best = torch.minimum(ax - lo, up - ax)
    tol = (2.0 ** (M - 23)) * (up - lo)
    bad = err > best + tol
    if bool(bad.any()):
        ctx.violation(f"{key}:not-nearest", f"{int(bad.sum())} of {n} outputs are the farther neighbour by more than 2^(M-23) of the spacing", E=E, M=M, tag=tag,
                      **first(bad))
    # idempotent
    q2 = fmt.quantise(q)
    ctx.count("idempotence:checked", n)
    if not torch.equal(q2.view(torch.int32), q.view(torch.int32)):
        bad = q2 != q
        ctx.violation(f"{key}:not-idempotent", f"{int(bad.sum())} outputs move when quantised again", E=E, M=M, tag=tag)
    # odd symmetry
    qn = fmt.quantise(-x)
    ctx.count("symmetry:checked", n)
    if not torch.equal(qn.view(torch.int32), (-q).view(torch.int32)):
        ctx.violation(f"{key}:not-odd-symmetric", "quantise(-x) != -quantise(x)", E=E, M=M, tag=tag)
    # monotone on sorted finite inputs
    xs, order = torch.sort(x.reshape(-1))
    qs = q.reshape(-1)[order]
    ctx.count("monotone:checked", max(n - 1, 0))
    if n > 1 and bool((qs[1:] < qs[:-1]).any()):
        i = int(torch.nonzero(qs[1:] < qs[:-1])[0])
        ctx.violation(f"{key}:not-monotone", f"x={float(xs[i])!r}->{float(qs[i])!r} but x={float(xs[i+1])!r}->{float(qs[i+1])!r}", E=E, M=M, tag=tag)


def run_case(case: Dict[str, Any], ctx) -> None:
    import torch
    from unit_scaling.formats import FPFormat
    from ..oracles import fpformat_exact as O

    kind = case["kind"]
    if kind == "values":
        E, M = case["E"], case["M"]
        ctx.count("evaluations")
        fmt = FPFormat(E, M, rounding="nearest")
        ctx.count("range-properties:checked")
        props = (fmt.max_absolute_value, fmt.min_absolute_normal, fmt.min_absolute_subnormal)
        want = (O.max_value(E, M), O.min_normal(E), O.min_subnormal(E, M))
        names = ("max_absolute_value", "min_absolute_normal", "min_absolute_subnormal")
        for nme, got, w in zip(names, props, want):
            if float(got) != w:
                ctx.violation(f"C13:range-property-wrong:{nme}", f"E{E}M{M}: {got!r} != {w!r}", E=E, M=M)
        if fmt.bits != 1 + E + M:
            ctx.violation("C13:range-property-wrong:bits", f"E{E}M{M}: {fmt.bits}")
        # history: other formats / rounding modes used just before in this process must not matter (stateless by statement)
        for (e2, m2, r2) in ((E, max(M - 1, 0), "nearest"), (max(E - 1, 2), M, "nearest"), (E, M, "stochastic")):
            FPFormat(e2, m2, rounding=r2).quantise(torch.tensor([0.3, -1.7, 5e-4]))
        ctx.count("history:primed-with-other-formats")
        x = _inputs_for(E, M, case["nrand"], case["seed"])
        for i in range(0, x.numel(), 2**20):
            judge(fmt, E, M, x[i:i + 2**20].clone(), ctx, "values")
        ctx.nontrivial(f"E{E}M{M}|values")
        return
    if kind == "exhaustive":
        E, M = case["E"], case["M"]
        fmt = FPFormat(E, M, rounding="nearest")
        ctx.count("evaluations")
        base = case["chunk"] << 24
        for sub in range(4):
            bits = torch.arange(base + (sub << 22), base + ((sub + 1) << 22), dtype=torch.int64)
            bits = torch.where(bits >= 2**31, bits - 2**32, bits).to(torch.int32)
            x = bits.view(torch.float32)
            x = x[~torch.isnan(x)]
            if x.numel():
                judge(fmt, E, M, x, ctx, "exhaustive")
        ctx.count("exhaustive:chunks")
        ctx.nontrivial(f"E{E}M{M}|chunk{case['chunk']}")
        return
    return run_shape(case, ctx)


def run_shape(case, ctx) -> None:
    import torch
    from unit_scaling.formats import FPFormat
    from ..instruments import DTYPES
    from ..oracles import fpformat_exact as O

    ctx.count("evaluations")
    rng = rng_for(case["seed"])
    dname = rng.choice(["float32", "float64", "bfloat16", "float16"])
    dtype = DTYPES[dname]
    while True:
        E, M = rng.randint(2, 8), rng.randint(0, 23)
        if dname in ("bfloat16", "float16"):
            if E + M > 14:
                continue
            tab = torch.tensor([float(v) for v in O.table(E, M)], dtype=torch.float64)
            if not torch.equal(tab.to(dtype).double(), tab):
                continue
        break
    fmt = FPFormat(E, M, rounding="nearest")
    rank = rng.choice([0, 1, 2, 3])
    layout = rng.choice(["contiguous", "contiguous", "strided", "transposed", "empty"]) if rank > 0 else "contiguous"
    shape = [rng.choice([1, 2, 3, 5, 8]) for _ in range(rank)]
    if layout == "empty":
        shape[rng.randrange(rank)] = 0
    g = torch.Generator().manual_seed(case["seed"])
    mx = O.max_value(E, M)
    scale = min(mx, 1e30) if E < 8 else min(mx, 2.0**100)
    big = [s * 2 if layout == "strided" else s for s in shape]
    x = (torch.randn(big, generator=g, dtype=torch.float64) * rng.choice([1.0, scale / 4, O.min_normal(E) * 2])).to(dtype)
    if dname == "float64":
        # the property quantifies over float32 VALUES held in tensors of the four dtypes (a generic float64 value is rounded to
        # float32 first, which may legitimately cost another 2^(M-24) of the spacing)
        x = x.float().double()
    if layout == "strided":
        x = x[tuple(slice(None, None, 2) for _ in shape)]
    elif layout == "transposed" and rank >= 2:
        x = x.transpose(0, rank - 1)
    key = f"C13:nearest:{dname}"
    ver, keep = x._version, x.clone()
    ctx.count("shape-dtype:checked")
    sig = f"{dname}|rank{rank}|{layout}|E{E}M{M}"
    try:
        q = fmt.quantise(x)
    except Exception as e:
        ctx.violation(f"{key}:raises:{'rank0' if rank == 0 else layout}:{exc_key(e)}", repr(e), E=E, M=M, shape=shape, dtype=dname)
        return
    ctx.count("sanitizer:argument-unmodified")
    if x._version != ver or not torch.equal(torch.nan_to_num(x), torch.nan_to_num(keep)):
        ctx.violation(f"{key}:argument-modified", "quantise changed its argument", E=E, M=M, shape=shape, layout=layout)
    if tuple(q.shape) != tuple(x.shape) or q.dtype != x.dtype:
        ctx.violation(f"{key}:shape-or-dtype-changed", f"output {tuple(q.shape)} {q.dtype} for input {tuple(x.shape)} {x.dtype}", E=E, M=M, layout=layout)
        return
    if x.numel() == 0:
        ctx.nontrivial(sig)
        return
    xd, qd = x.double(), q.double()
    ax = torch.clamp(xd.abs(), max=mx)
    lo, up, sp = O.neighbours(ax, E, M)
    aq = qd.abs()
    ctx.count("inputs:judged", x.numel())
    ctx.count("inputs:non-representable", int((lo != up).sum()))
    bad = (aq != lo) & (aq != up)
    if bool(bad.any()):
        i = int(torch.nonzero(bad.reshape(-1))[0])
        ctx.violation(f"{key}:not-a-neighbour", f"x={float(xd.reshape(-1)[i])!r} -> {float(qd.reshape(-1)[i])!r}, neighbours {float(lo.reshape(-1)[i])!r}/{float(up.reshape(-1)[i])!r}",
                      E=E, M=M, shape=shape, layout=layout)
        return
    err = (aq - ax).abs()
    best = torch.minimum(ax - lo, up - ax)
    if bool((err > best + 2.0 ** (M - 23) * (up - lo)).any()):
        ctx.violation(f"{key}:not-nearest", "farther neighbour by more than the stated tolerance", E=E, M=M, shape=shape, layout=layout)
    if bool((torch.signbit(q) != torch.signbit(x)).any()):
        ctx.violation(f"{key}:sign-not-preserved", "sign changed", E=E, M=M)
    ctx.nontrivial(sig)
