"""C09 - u-muP parameter tags survive any history of copies, pickling and transforms."""

from __future__ import annotations

import copy
import io
import itertools
import pickle
from typing import Any, Dict, List

from ..common import derive_seed, exc_key, rng_for

PROPERTY = "C09"
LEVEL = "exploration"
RULE = ("history + executable shadow model: a history is a sequence over a 13-letter alphabet {deepcopy(param), deepcopy(module), pickle "
        "(param), pickle(module), torch.save/load(param), torch.save/load(module), module.to(float64), module.half(), load_state_dict, "
        "requires_grad_ toggle, simulate_format(lossless), unit_scale, track_scales}; after EVERY step the real parameter is compared "
        "with the shadow (tag, depth, values, dtype, nn.Parameter-ness, requires_grad, lr assigned by scaled_parameters). icontract "
        "postconditions on the two copy/unpickle hooks additionally require that their result is itself copy-safe. quick: all "
        "histories of length <= 2 x 4 tags x 3 depths + random histories of length 3-4; thorough: ALL histories of length <= 4. "
        "Non-trivial = history length >= 2; distinct = (history, tag, depth). After every step the scaled lr is also computed from a 0-dim tensor lr and compared with the original's in value and dtype.")
ASSUMPTIONS = ["load_state_dict(assign=True) is out of scope (replaces the parameter object by design)"]
IMPORTS = ["unit_scaling.parameter", "unit_scaling.transforms.utils", "unit_scaling.optim", "unit_scaling.transforms"]
REQUIRED_MONITORS = ["shadow:steps-compared", "contract:_parameter_deepcopy", "contract:_rebuild_parameter_with_state", "lr:accepted-by-optimizer"]
REQUIRED_REACH = {"parameter.py": ["_parameter_deepcopy", "_rebuild_parameter_with_state", "_parameter_reduce_ex", "Parameter", "has_parameter_data"],
                  "transforms/utils.py": ["apply_transform"]}
MIN_NONTRIVIAL = {"quick": 2000, "thorough": 300000}
EXHAUSTIVE = {"quick": False, "thorough": True}
EXHAUSTIVE_NOTE = {"thorough": "all 30941 histories of length <= 4 over the 13-letter alphabet x 4 tags x depth in {None,1,7}"}
WATCHDOG = {"quick": 1800, "thorough": 4 * 3600}

LETTERS = ["dc_p", "dc_m", "pk_p", "pk_m", "ts_p", "ts_m", "to64", "half", "lsd", "rg", "t_sim", "t_us", "t_track"]
TAGS = ["weight", "bias", "norm", "output"]
DEPTHS = [None, 1, 7]


def gen_cases(tier: str, seed: int) -> List[Dict[str, Any]]:
    hists: List[List[str]] = []
    maxlen = 2 if tier == "quick" else 4
    for n in range(0, maxlen + 1):
        for h in itertools.product(LETTERS, repeat=n):
            hists.append(list(h))
    cases: List[Dict[str, Any]] = []
    combos = [(t, d) for t in TAGS for d in DEPTHS]
    batch: List[Any] = []

    def flush():
        if batch:
            cases.append({"runs": list(batch)})
            batch.clear()

    per = 60 if tier == "quick" else 600
    for h in hists:
        for (t, d) in combos:
            batch.append([h, t, d])
            if len(batch) >= per:
                flush()
    if tier == "quick":
        rng = rng_for(seed, PROPERTY, "random")
        for _ in range(3000):
            h = [rng.choice(LETTERS) for _ in range(rng.choice([3, 4]))]
            t, d = rng.choice(combos)
            batch.append([h, t, d])
            if len(batch) >= per:
                flush()
    flush()
    return cases


class Holder:  # replaced by an nn.Module subclass in setup() (torch must not be imported by the parent process)
    pass


def setup(state: Dict[str, Any]) -> None:
    import icontract
    import torch
    from torch import nn
    import unit_scaling.parameter as P
    from ..instruments import install

    global Holder

    class _Holder(nn.Module):
        def __init__(self, p):
            super().__init__()
            self.p = p

        def forward(self, x):
            return x * self.p.sum()

    _Holder.__name__ = "Holder"
    _Holder.__qualname__ = "Holder"
    _Holder.__module__ = __name__
    Holder = _Holder

    counts: Dict[str, int] = {}
    viol: List[Dict[str, Any]] = []
    state.update(counts=counts, viol=viol, guard=[0])

    class Broken(Exception):
        pass

    def bump(k):
        counts[k] = counts.get(k, 0) + 1

    def mk(name):
        def post(result):
            bump(f"contract:{name}")
            if state["guard"][0]:
                return True
            state["guard"][0] += 1
            try:
                if not P.has_parameter_data(result):
                    viol.append({"key": f"C09:{name}:result-has-no-tags", "msg": f"{name} returned a parameter without u-muP tags", "detail": {}})
                else:
                    again = copy.deepcopy(result)
                    if not P.has_parameter_data(again) or again.mup_type != result.mup_type or again.mup_scaling_depth != result.mup_scaling_depth:
                        viol.append({"key": f"C09:{name}:result-is-not-copy-safe", "msg": f"a deepcopy of the parameter returned by {name} has lost its tags", "detail": {}})
                    again = pickle.loads(pickle.dumps(result))
                    if not P.has_parameter_data(again) or again.mup_type != result.mup_type:
                        viol.append({"key": f"C09:{name}:result-is-not-pickle-safe", "msg": f"a pickle round trip of the parameter returned by {name} has lost its tags", "detail": {}})
            except Exception as e:
                viol.append({"key": f"C09:{name}:result-cannot-be-copied:" + exc_key(e), "msg": repr(e), "detail": {}})
            finally:
                state["guard"][0] -= 1
            return True
        return post

    for name in ("_parameter_deepcopy", "_rebuild_parameter_with_state"):
        orig = getattr(P, name)
        install(orig, icontract.ensure(mk(name), error=Broken)(orig))


def _flush(state, ctx) -> None:
    for k, v in state["counts"].items():
        ctx.count(k, v)
    state["counts"].clear()
    seen = set()
    for v in state["viol"]:
        if v["key"] not in seen:
            ctx.violation(v["key"], v["msg"], **v["detail"])
            seen.add(v["key"])
    state["viol"].clear()


def run_case(case: Dict[str, Any], ctx) -> None:
    for h, tag, depth in case["runs"]:
        run_history(h, tag, depth, ctx)
    _flush(ctx.state, ctx)


def run_history(hist: List[str], tag: str, depth, ctx) -> None:
    import torch
    import unit_scaling as uu
    import unit_scaling.optim as O
    from unit_scaling.formats import FPFormat
    from unit_scaling.parameter import has_parameter_data
    from unit_scaling.transforms import simulate_format, track_scales, unit_scale

    ctx.count("evaluations")
    shape = (3, 4) if tag in ("weight", "output") else (5,)
    base = torch.arange(1, 1 + shape[0] * (shape[1] if len(shape) > 1 else 1), dtype=torch.float32).reshape(shape) / 8 - 0.5
    p = uu.Parameter(base.clone(), tag, depth)
    want_lr = float(O.scaled_parameters([p], O.lr_scale_func_adam, lr=1.0)[0]["lr"])
    # the same with the learning rate given as a 0-dim tensor (documented as Union[float, Tensor]): value AND dtype of the scaled lr
    want_lr_t = O.scaled_parameters([p], O.lr_scale_func_adam, lr=torch.tensor(0.3))[0]["lr"]
    shadow = {"values": base.clone(), "dtype": torch.float32, "rg": True}
    prefix = "C09:history"

    def kind_of(step):
        return {"dc_p": "deepcopy", "dc_m": "deepcopy", "pk_p": "pickle", "pk_m": "pickle", "ts_p": "torch.save", "ts_m": "torch.save",
                "to64": "dtype", "half": "dtype", "lsd": "load_state_dict", "rg": "requires_grad", "t_sim": "transform", "t_us": "transform",
                "t_track": "transform"}[step]

    for i, step in enumerate(hist):
        try:
            holder = Holder(p)
            if step == "dc_p":
                p = copy.deepcopy(p)
            elif step == "dc_m":
                p = copy.deepcopy(holder).p
            elif step == "pk_p":
                p = pickle.loads(pickle.dumps(p))
            elif step == "pk_m":
                p = pickle.loads(pickle.dumps(holder)).p
            elif step == "ts_p":
                b = io.BytesIO()
                torch.save(p, b)
                b.seek(0)
                p = torch.load(b, weights_only=False)
            elif step == "ts_m":
                b = io.BytesIO()
                torch.save(holder, b)
                b.seek(0)
                p = torch.load(b, weights_only=False).p
            elif step == "to64":
                p = holder.to(torch.float64).p
                shadow["values"] = shadow["values"].to(torch.float64)
                shadow["dtype"] = torch.float64
            elif step == "half":
                p = holder.half().p
                shadow["values"] = shadow["values"].to(torch.float16)
                shadow["dtype"] = torch.float16
            elif step == "lsd":
                sd = copy.deepcopy(holder.state_dict())
                with torch.no_grad():
                    holder.p.add_(1.0)
                holder.load_state_dict(sd)
                p = holder.p
            elif step == "rg":
                p.requires_grad_(not p.requires_grad)
                shadow["rg"] = not shadow["rg"]
            elif step == "t_sim":
                p = simulate_format(holder, FPFormat(8, 23, "nearest"), FPFormat(8, 23, "nearest")).p
            elif step == "t_us":
                p = unit_scale(holder).p
            elif step == "t_track":
                p = track_scales(holder).p
        except Exception as e:
            ctx.violation(f"{prefix}:step-raises:{kind_of(step)}:{exc_key(e)}", f"history {hist} step {i} ({step}): {e!r}", history=hist, tag=tag, depth=depth)
            return
        ctx.count("shadow:steps-compared")
        prev = [kind_of(s) for s in hist[:i]]
        copying = {"deepcopy", "pickle", "torch.save", "transform"}
        ctxt = kind_of(step) + ("-of-an-earlier-copy" if copying & set(prev) else "")
        det = dict(history=hist, step_index=i, tag=tag, depth=depth)
        if not isinstance(p, torch.nn.Parameter):
            ctx.violation(f"{prefix}:not-a-parameter:{kind_of(step)}", f"after {hist[:i+1]} the object is {type(p).__name__}", **det)
            return
        if not has_parameter_data(p) or getattr(p, "mup_type", None) != tag or getattr(p, "mup_scaling_depth", "missing") != depth:
            ctx.violation(f"{prefix}:tags-lost:{ctxt}", f"after {hist[:i+1]}: mup_type={getattr(p, 'mup_type', None)!r} depth={getattr(p, 'mup_scaling_depth', 'missing')!r}, "
                          f"expected {tag!r}/{depth!r}", **det)
            return
        if p.dtype != shadow["dtype"] or tuple(p.shape) != tuple(shape) or not torch.equal(p.detach(), shadow["values"]):
            ctx.violation(f"{prefix}:values-changed:{kind_of(step)}", f"after {hist[:i+1]}: dtype {p.dtype}, values differ from the shadow", **det)
            return
        if p.requires_grad != shadow["rg"]:
            ctx.violation(f"{prefix}:requires_grad-changed:{kind_of(step)}", f"after {hist[:i+1]}: requires_grad={p.requires_grad}", **det)
            return
        try:
            lr = float(O.scaled_parameters([p], O.lr_scale_func_adam, lr=1.0)[0]["lr"])
            ctx.count("lr:accepted-by-optimizer")
            if lr != want_lr:
                ctx.violation(f"{prefix}:lr-scale-changed:{kind_of(step)}", f"after {hist[:i+1]}: lr {lr!r} != {want_lr!r}", **det)
                return
            lr_t = O.scaled_parameters([p], O.lr_scale_func_adam, lr=torch.tensor(0.3))[0]["lr"]
            ctx.count("lr:tensor-lr-compared")
            if not isinstance(lr_t, torch.Tensor) or lr_t.dtype != want_lr_t.dtype or float(lr_t) != float(want_lr_t):
                ctx.violation(f"{prefix}:tensor-lr-scale-changed:{kind_of(step)}", f"after {hist[:i+1]}: tensor lr {lr_t!r} != {want_lr_t!r} (the original's)", **det)
                return
        except Exception as e:
            ctx.violation(f"{prefix}:optimizer-rejects:{ctxt}", f"after {hist[:i+1]}: {e!r}", **det)
            return
    if len(hist) >= 2:
        ctx.nontrivial(f"{','.join(hist)}|{tag}|{depth}")
