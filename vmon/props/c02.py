"""C02 - gradients = PyTorch's x per-input data-independent scalars; primitives exact."""

from __future__ import annotations

from typing import Any, Dict, List

from ..common import derive_seed, exc_key, rng_for
from ..opcheck import feature, gen_op_cases, rel_close, sig_of

PROPERTY = "C02"
LEVEL = "exploration"
RULE = ("same configuration space as C01; each configuration is differentiated on two independent (data, upstream-"
        "gradient) draw pairs plus a third run with draw A's data and draw B's upstream gradient; per differentiable "
        "input the gradient is fitted against the reference autograd gradient (sum-reduced loss for mean-reduced "
        "losses). Argument forms: non-contiguous inputs, upstream gradients that are expanded (stride 0, as from y.sum(-1)) or strided, one differentiable input without requires_grad; the upstream gradient tensor is compared bit for bit before/after backward. Non-trivial = at least one input has a non-zero reference gradient; distinct = (function, constraint, "
        "dtype, shapes) signature. 'prim' cases drive scale_fwd / scale_bwd directly with factors in [-1e3,1e3]. Same positional / magnitude / soft-label forms as C01; a quarter of the cases make the very same call under torch.no_grad() first (a validation pass before any gradient is taken).")
ASSUMPTIONS = ["PyTorch autograd of the reference op is correct", "float64 noise < 1e-10 relative"]
IMPORTS = ["unit_scaling.functional", "unit_scaling.scale", "unit_scaling.core.functional"]
REQUIRED_MONITORS = ["fit:gradients", "prim:value-checks", "prim:grad-checks", "spy:scale-calls"]
REQUIRED_REACH = {
    "scale.py": ["_ScaledGrad.forward", "_ScaledGrad.backward", "scale_fwd", "scale_bwd"],
    "functional.py": ["linear", "conv1d", "add", "embedding", "scaled_dot_product_attention", "cross_entropy",
                      "mse_loss", "matmul", "layer_norm", "rms_norm", "silu_glu"],
}
MIN_NONTRIVIAL = {"quick": 300, "thorough": 30000}


def gen_cases(tier: str, seed: int) -> List[Dict[str, Any]]:
    cases = gen_op_cases(PROPERTY, tier, seed, 1600, 120000)
    n_prim = 2000 if tier == "quick" else 50000
    per = 50
    for i in range(n_prim // per):
        cases.append({"kind": "prim", "n": per, "seed": derive_seed(seed, PROPERTY, "prim", i) % (2**31)})
    return cases


def run_case(case: Dict[str, Any], ctx) -> None:
    if case["kind"] == "prim":
        return run_prim(case, ctx)
    ctx.count("evaluations")
    import torch
    import unit_scaling.functional as U
    from ..instruments import DTYPES, TOL
    from ..optable import OPS, run_fit

    op = OPS[case["fn"]]
    cfg, constraint = case["cfg"], case["constraint"]
    dtype = DTYPES[case["dtype"]]
    tol = TOL[dtype]
    sA, sB, uA, uB = case["seeds"]
    feat = feature(case["fn"], cfg)

    def key(clause: str) -> str:
        return f"C02:{case['fn']}:{clause}" + (f":{feat}" if feat else "")

    if dtype == torch.float64 and sA % 3 == 0:
        try:  # history: the same configuration evaluated first in bfloat16 / float32 in this process
            run_fit(op, U, cfg, constraint, torch.bfloat16, sA, uA)
            run_fit(op, U, cfg, constraint, torch.float32, sA, uA)
            ctx.count("history:primed-in-lower-precision")
        except Exception:
            pass
    if sA % 4 == 1:
        try:  # history: a validation pass first - the very same call made under torch.no_grad() before any gradient is taken
            with torch.no_grad():
                run_fit(op, U, cfg, constraint, dtype, sA, uA, want_grads=False)
            ctx.count("history:no_grad-pass-first")
        except Exception:
            pass
    try:
        A = run_fit(op, U, cfg, constraint, dtype, sA, uA)
    except Exception as e:
        # call_u / call_ref exceptions are captured inside run_fit; anything here is the backward pass
        ctx.violation(key("backward-raises:" + exc_key(e)), repr(e), cfg=cfg, constraint=constraint, dtype=case["dtype"])
        return
    if A.ref_exc is not None:
        ctx.skip("reference raises")
        return
    if A.u_exc is not None:
        ctx.skip("forward raises (C01's business)")
        ctx.count("forward-raised")
        return
    if A.ref_nonfinite or A.s_out is None and not A.b:
        ctx.skip("reference non-finite / zero")
        return
    try:
        B = run_fit(op, U, cfg, constraint, dtype, sB, uB)
        C = run_fit(op, U, cfg, constraint, dtype, sA, uB)  # same data, other upstream gradient
        A2 = run_fit(op, U, cfg, constraint, dtype, sA, uA)  # repetition
    except Exception as e:
        ctx.violation(key("backward-raises:" + exc_key(e)), repr(e), cfg=cfg, constraint=constraint)
        return
    if B.ref_nonfinite or C.ref_nonfinite or B.u_exc or C.u_exc or B.ref_exc or C.ref_exc:
        ctx.skip("second draw not comparable")
        return
    if cfg.get("_mags") and dtype in (torch.bfloat16, torch.float16):
        # (as in C01) the low-precision PyTorch reference must first agree with its own float64 evaluation
        from ..optable import reference_noise
        try:
            worst = max(max(reference_noise(op, cfg, dtype, sd, su).values()) for sd, su in ((sA, uA), (sB, uB), (sA, uB)))
        except Exception:
            worst = 1.0
        if not worst <= 0.05:
            ctx.count("excluded:pytorch-low-precision-reference-off-its-float64-value")
            ctx.skip("PyTorch's own low-precision result is off its float64 value")
            return
    ctx.count("spy:scale-calls", len(A.scale_trace))
    ctx.count("sanitizer:upstream-gradients-checked", 3)
    if cfg.get("_layout"):
        ctx.count("form:" + cfg["_layout"])
    if cfg.get("_frozen"):
        ctx.count("form:one-input-without-requires_grad")
    if A.upstream_mutated or B.upstream_mutated or C.upstream_mutated:
        ctx.violation(key("backward-modifies-the-upstream-gradient"), "the tensor passed to backward() changed during backward", cfg=cfg)
    if A.scale_trace != B.scale_trace or A.scale_trace != C.scale_trace:
        ctx.violation(key("scale-factors-differ-between-draws"), f"{A.scale_trace} vs {B.scale_trace} vs {C.scale_trace}", cfg=cfg)
    stol = 1e-11 if dtype == torch.float64 else 2 * tol  # fitted scalars of tiny low-precision tensors are noisy
    any_nonzero = False
    extras_by_name: Dict[str, Any] = {}
    # (float32 with extreme data magnitudes - a saturated softmax, a norm of tiny values - is judged like the low-precision dtypes:
    # against what PyTorch's own op loses on the very same draw)
    lowp = dtype in (torch.bfloat16, torch.float16) or (dtype == torch.float32 and bool(cfg.get("_mags")))
    _noise_cache: Dict[str, Dict[str, float]] = {}

    def noise_of(tag: str, name: str) -> float:
        """What PyTorch's own low-precision op loses on this very draw (relative to max|grad|): a gradient that is the small
        remainder of a cancelling sum carries that much relative error, and so does the scalar fitted to it."""
        if not lowp:
            return 0.0
        if tag not in _noise_cache:
            from ..optable import reference_noise
            sd, su = {"A": (sA, uA), "B": (sB, uB), "C": (sA, uB)}[tag]
            try:
                _noise_cache[tag] = reference_noise(op, cfg, dtype, sd, su)
            except Exception:
                _noise_cache[tag] = {}
        return _noise_cache[tag].get(name, 0.0)
    for name in A.b:
        bs = [fr.b.get(name) for fr in (A, B, C)]
        rs = [fr.res_b.get(name, 0.0) for fr in (A, B, C)]
        for tag, fr in (("A", A), ("B", B), ("C", C)):
            gu, gr = fr.grads_u[name], fr.grads_r[name]
            if tuple(gu.shape) != tuple(gr.shape):
                ctx.violation(key(f"grad-shape:{name}"), f"{tuple(gu.shape)} vs {tuple(gr.shape)}", cfg=cfg)
                return
            if not bool(torch.isfinite(gu).all()):
                if gr.numel() and float(gr.abs().max()) > torch.finfo(gr.dtype).max / 16:
                    # the reference gradient itself lies within 4 bits of the dtype's overflow threshold (float16: > 4094): whether
                    # an intermediate overflows is decided by the order of operations, not by the property
                    ctx.count("excluded:reference-gradient-near-the-overflow-threshold")
                    ctx.skip("reference gradient near the dtype's overflow threshold")
                    return
                ctx.violation(key(f"grad-nonfinite:{name}"), "library gradient non-finite, reference finite", cfg=cfg)
                return
        # a gradient that is MATHEMATICALLY zero (softmax under an upstream gradient that is constant along the softmax dim, the
        # rms of a single element ...) comes out as rounding noise on both sides: nothing to fit. "Noise" = below 16 ulp of what the
        # operands could produce, for the reference AND for the library.
        floors = [16 * _EPS[case["dtype"]] * fr.upstream_max * fr.input_max for fr in (A, B, C)]
        if all(float(fr.grads_r[name].abs().max() if fr.grads_r[name].numel() else 0.0) <= fl and
               float(fr.grads_u[name].abs().max() if fr.grads_u[name].numel() else 0.0) <= fl for fr, fl in zip((A, B, C), floors)):
            ctx.count("trivial:gradient-at-rounding-noise-level")
            continue
        if any(b is None for b in bs):
            for (b, r, tag), fr in zip(zip(bs, rs, "ABC"), (A, B, C)):
                # the reference gradient is identically zero (e.g. attention over a single key: softmax' = 0). "Zero" is judged at
                # rounding level relative to the largest gradient this call produced: p * (g - sum(p * g)) need not cancel exactly
                big = max([float(t.abs().max()) for t in fr.grads_u.values() if t is not None and t.numel()] + [fr.upstream_max * fr.input_max])
                if b is None and r > 64 * _EPS[case["dtype"]] * big:
                    ctx.violation(key(f"nonzero-grad-where-reference-zero:{name}"), f"draw {tag}: max|grad|={r}", cfg=cfg)
            continue
        any_nonzero = True
        ctx.count("fit:gradients", 3)
        # a gradient element that is a SUM over n upstream elements (weight / bias / broadcast operands): in 16-bit dtypes the
        # library's products are rounded per term before the sum, PyTorch's fused backward rounds once - the difference grows
        # like sqrt(n) ulps
        n_terms = max(1, (A.out_u.numel() if A.out_u is not None else 1) // max(1, A.grads_u[name].numel()))
        red = max(1.0, n_terms ** 0.5 / 2) if dtype in (torch.bfloat16, torch.float16) else 1.0

        def cancel(fr_):
            """extra relative tolerance of a 16-bit SUMMED gradient whose terms cancel: with per-term rounding the absolute error is
            about eps * sqrt(n) * |upstream|; relative to a result that is only a fraction rho of that magnitude it is eps / rho"""
            if dtype not in (torch.bfloat16, torch.float16):
                return 0.0
            # (an element computed from operands of size |upstream| x |input| carries 2 ulp of THAT size as absolute error, however
            # small the element itself is - silu' near its zero, a gate product that nearly cancels)
            gmax_ = max(float(fr_.grads_r[name].abs().max()) if fr_.grads_r[name].numel() else 0.0, 1e-30)
            elem = 2 * _EPS[case["dtype"]] * fr_.upstream_max * fr_.input_max / gmax_
            if n_terms < 2:
                return min(elem, 1.0)
            big_ = n_terms ** 0.5 * max(fr_.upstream_max, 1e-30)
            rho = min(1.0, float(fr_.grads_r[name].abs().max()) / big_) if fr_.grads_r[name].numel() else 1.0
            return 4 * _EPS[case["dtype"]] / max(rho, 1e-6) + min(elem, 1.0)
        extra = {"A": cancel(A), "B": cancel(B), "C": cancel(C)}
        extras_by_name[name] = (red, extra["A"])
        for b, r, tag in zip(bs, rs, "ABC"):
            if r > tol and lowp:
                # low precision: is the deviation above what PyTorch's own op suffers on these very inputs?
                noise = noise_of(tag, name)
                if r <= 8 * noise + tol * red + extra[tag]:
                    ctx.count("lowp:within-noise-of-the-reference-op")
                    continue
            if r > tol:
                ctx.violation(key(f"grad-not-a-scalar-multiple:{name}"),
                              f"draw {tag}: residual {r:.3e} > {tol:.1e} (b={b!r}): direction changed", cfg=cfg,
                              constraint=constraint, dtype=case["dtype"])
                return
            if not (b > 0):
                ctx.violation(key(f"grad-scalar-not-positive:{name}"), f"b={b!r}", cfg=cfg, constraint=constraint)
                return
        if not rel_close(bs[0], bs[1], stol) and lowp and rel_close(bs[0], bs[1], stol * red + extra["A"] + extra["B"] + 8 * (noise_of("A", name) + noise_of("B", name))):
            ctx.count("lowp:scalar-within-noise-of-the-reference-op")
        elif not rel_close(bs[0], bs[1], stol):
            ctx.violation(key(f"grad-scalar-depends-on-data:{name}"), f"b_A={bs[0]!r} b_B={bs[1]!r}", cfg=cfg,
                          constraint=constraint, dtype=case["dtype"])
        if not rel_close(bs[0], bs[2], stol) and lowp and rel_close(bs[0], bs[2], stol * red + extra["A"] + extra["C"] + 8 * (noise_of("A", name) + noise_of("C", name))):
            ctx.count("lowp:scalar-within-noise-of-the-reference-op")
        elif not rel_close(bs[0], bs[2], stol):
            ctx.violation(key(f"grad-scalar-depends-on-upstream:{name}"), f"b_A={bs[0]!r} b_C={bs[2]!r}", cfg=cfg,
                          constraint=constraint, dtype=case["dtype"])
        g1, g2 = A.grads_u[name], A2.grads_u.get(name)
        ctx.count("repeat:compared")
        if g2 is None or not torch.equal(g1, g2):
            ctx.violation(key(f"grad-repeat-call-differs:{name}"), "same inputs and RNG state, different gradient", cfg=cfg)
    if dtype != torch.float64 and any_nonzero:
        R = run_fit(op, U, cfg, constraint, torch.float64, sA, uA)
        if R.u_exc is None and R.ref_exc is None:
            for name, b in A.b.items():
                rb = R.b.get(name)
                if b is not None and rb is not None and not rel_close(b, rb, 2 * tol * extras_by_name.get(name, (1.0, 0.0))[0] + extras_by_name.get(name, (1.0, 0.0))[1] + 8 * noise_of("A", name)):
                    ctx.violation(key(f"grad-scalar-differs-from-float64:{name}"), f"{case['dtype']}: {b!r}; float64: {rb!r}", cfg=cfg)
    if any_nonzero:
        ctx.nontrivial(sig_of(case))


# ------------------------------------------------------------------------ primitives
_EPS = {"float64": 2.0**-52, "float32": 2.0**-23, "bfloat16": 2.0**-7, "float16": 2.0**-10}
# absolute floor: one subnormal step of the dtype (results below the normal range lose relative precision)
_TINY = {"float64": 2.0**-1074, "float32": 2.0**-149, "bfloat16": 2.0**-133, "float16": 2.0**-24}


def run_prim(case: Dict[str, Any], ctx) -> None:
    import torch
    from unit_scaling.scale import scale_bwd, scale_fwd
    from ..instruments import DTYPES

    rng = rng_for(case["seed"], "prim")
    g = torch.Generator().manual_seed(case["seed"])
    for j in range(case["n"]):
        ctx.count("evaluations")
        dname = rng.choice(["float64", "float64", "float32", "bfloat16", "float16"])
        dtype = DTYPES[dname]
        rank = rng.choice([0, 1, 2, 3, 4])
        shape = [rng.choice([0, 1, 2, 3, 5]) if rng.random() < 0.08 else rng.choice([1, 2, 3, 5, 7]) for _ in range(rank)]
        r = rng.random()
        if r < 0.12:
            c = 0
        elif r < 0.2:
            c = rng.choice([1, -1, 2, -3, 1000, -1000])
        elif r < 0.3:
            c = 0.0 if rng.random() < 0.3 else -0.5
        else:
            c = rng.uniform(-1e3, 1e3) if rng.random() < 0.5 else rng.choice([-1, 1]) * 10 ** rng.uniform(-6, 3)
        x = torch.randn(tuple(shape), generator=g, dtype=torch.float64).to(dtype)
        up = torch.randn(tuple(shape), generator=g, dtype=torch.float64).to(dtype)
        eps = _EPS[dname]
        sig = f"prim|{dname}|rank{rank}|{'zero' if c == 0 else 'neg' if c < 0 else 'pos'}|{type(c).__name__}|{'empty' if 0 in shape else 'nonempty'}"
        if j % 2 == 0 and x.numel():
            # history: the same factor applied first to tensors of other dtypes (a cached constant must not leak its dtype)
            for lp in (torch.bfloat16, torch.float32, torch.float64):
                if lp != dtype:
                    xp = torch.ones(3, dtype=lp, requires_grad=True)
                    scale_bwd(scale_fwd(xp, c), c).sum().backward()
            ctx.count("history:primed-with-other-dtypes")
        for which, f in (("scale_fwd", scale_fwd), ("scale_bwd", scale_bwd)):
            xin = x.clone().requires_grad_(True)
            ver = xin._version
            try:
                y = f(xin, c)
                y.backward(up)
            except Exception as e:
                ctx.violation(f"C02:{which}:raises:{exc_key(e)}", repr(e), c=c, shape=shape, dtype=dname)
                continue
            if xin._version != ver or not torch.equal(xin.detach(), x):
                ctx.violation(f"C02:{which}:input-modified", "argument changed", c=c, shape=shape, dtype=dname)
            grad = xin.grad
            if tuple(y.shape) != tuple(x.shape) or y.dtype != x.dtype or grad is None or tuple(grad.shape) != tuple(x.shape):
                ctx.violation(f"C02:{which}:shape-or-dtype", f"{y.shape} {y.dtype}", c=c, shape=shape, dtype=dname)
                continue
            ctx.count("prim:value-checks")
            ctx.count("prim:grad-checks")
            want_val = (x.double() * float(c)) if which == "scale_fwd" else x.double()
            want_grad = up.double() if which == "scale_fwd" else (up.double() * float(c))
            if which == "scale_fwd":
                # backward pass untouched: bit-for-bit the upstream gradient
                if not torch.equal(grad, up):
                    ctx.violation("C02:scale_fwd:gradient-not-untouched", f"max diff {(grad.double()-up.double()).abs().max().item() if grad.numel() else 0}",
                                  c=c, shape=shape, dtype=dname)
                err = (y.detach().double() - want_val).abs()
                lim = 2 * eps * want_val.abs() + (0 if c == 0 else _TINY[dname])
                if bool((err > lim).any()):
                    ctx.violation("C02:scale_fwd:value-not-c-times-x", f"max err {err.max().item():.3e}", c=c, shape=shape, dtype=dname)
            else:
                if not torch.equal(y.detach(), x):
                    ctx.violation("C02:scale_bwd:forward-value-not-untouched", "forward value differs from the input", c=c, shape=shape, dtype=dname)
                err = (grad.double() - want_grad).abs()
                lim = 4 * eps * want_grad.abs() + (0 if c == 0 else 2 * _TINY[dname])
                if bool((err > lim).any()):
                    ctx.violation("C02:scale_bwd:gradient-not-c-times-g", f"max err {err.max().item():.3e}", c=c, shape=shape, dtype=dname)
        ctx.nontrivial(sig)
