"""Shared helpers: seeds, per-case context, JSON-safe conversion."""

from __future__ import annotations

import hashlib
import json
import math
import os
import random
import traceback
from typing import Any, Dict, List, Optional

VERIF_HOME = os.environ.get(
    "VERIF_HOME", os.path.dirname(os.path.dirname(os.path.abspath(__file__)))
)


def derive_seed(*parts: Any) -> int:
    """Deterministic 63-bit seed from arbitrary parts (never uses hash())."""
    h = hashlib.blake2b(repr(parts).encode(), digest_size=8).digest()
    return int.from_bytes(h, "big") >> 1


def rng_for(*parts: Any) -> random.Random:
    return random.Random(derive_seed(*parts))


def loguniform(rng: random.Random, lo: float, hi: float) -> float:
    return math.exp(rng.uniform(math.log(lo), math.log(hi)))


def jsonable(x: Any, depth: int = 0) -> Any:
    """Best-effort conversion of witnesses to JSON (tensors summarised, not dumped)."""
    if depth > 6:
        return repr(x)[:200]
    if x is None or isinstance(x, (bool, int, str)):
        return x
    if isinstance(x, float):
        if math.isnan(x) or math.isinf(x):
            return repr(x)
        return x
    if isinstance(x, (list, tuple)):
        return [jsonable(v, depth + 1) for v in x]
    if isinstance(x, dict):
        return {str(k): jsonable(v, depth + 1) for k, v in x.items()}
    try:
        import torch

        if isinstance(x, torch.Tensor):
            if x.numel() <= 16:
                return {
                    "tensor": x.detach().cpu().tolist(),
                    "dtype": str(x.dtype),
                    "shape": list(x.shape),
                }
            return {"tensor_shape": list(x.shape), "dtype": str(x.dtype)}
        if isinstance(x, (torch.dtype, torch.Size)):
            return str(x)
    except Exception:  # pragma: no cover
        pass
    return repr(x)[:300]


class CaseCtx:
    """Collects what the monitors observed while one case ran."""

    def __init__(self, case: Dict[str, Any]):
        self.case = case
        self.violations: List[Dict[str, Any]] = []
        self.counters: Dict[str, int] = {}
        self.sigs: List[str] = []
        self.skipped: Optional[str] = None
        self.notes: List[str] = []
        self.samples: List[Any] = []
        self.stats: Dict[str, List[float]] = {}

    # -- monitors call these ------------------------------------------------
    def violation(self, key: str, msg: str, **detail: Any) -> None:
        """key = mechanism key (never a seed / hash / random value)."""
        n_key = sum(1 for v in self.violations if v["key"] == key)
        if n_key < 3 and len(self.violations) < 120:
            self.violations.append(
                {"key": key, "msg": msg[:2000], "detail": jsonable(detail)}
            )

    def count(self, name: str, n: int = 1) -> None:
        self.counters[name] = self.counters.get(name, 0) + n

    def nontrivial(self, sig: str) -> None:
        """Register a distinct non-trivial configuration signature."""
        self.sigs.append(sig)

    def skip(self, reason: str) -> None:
        self.skipped = reason

    def sample(self, obj: Any) -> None:
        """An actual explored case written out for the evidence file (first one per case is kept)."""
        if not self.samples:
            self.samples.append(jsonable(obj))

    def stat(self, name: str, value: float) -> None:
        """Observed extreme values (min, max, count), aggregated over the run into the evidence."""
        v = float(value)
        if v != v:
            return
        cur = self.stats.get(name)
        if cur is None:
            self.stats[name] = [v, v, 1]
        else:
            cur[0], cur[1], cur[2] = min(cur[0], v), max(cur[1], v), cur[2] + 1

    def note(self, text: str) -> None:
        if len(self.notes) < 5:
            self.notes.append(text[:500])

    def to_json(self) -> Dict[str, Any]:
        return {
            "id": self.case.get("id"),
            "viol": self.violations,
            "mon": self.counters,
            "sigs": self.sigs,
            "skip": self.skipped,
            "notes": self.notes,
            "samples": self.samples,
            "stats": self.stats,
        }


def short_tb(exc: BaseException, limit: int = 6) -> str:
    return "".join(traceback.format_exception(type(exc), exc, exc.__traceback__, limit=-limit))[-1800:]


def exc_key(exc: BaseException) -> str:
    """Mechanism-ish fingerprint of an exception: type + message with numbers removed."""
    import re

    msg = str(exc).split("\n")[0][:160]
    msg = re.sub(r"0x[0-9a-fA-F]+", "#", msg)
    msg = re.sub(r"[-+]?\d+(\.\d+)?([eE][-+]?\d+)?", "#", msg)
    msg = re.sub(r"\s+", " ", msg).strip()
    return f"{type(exc).__name__}:{msg}"


def dump(obj: Any) -> str:
    return json.dumps(jsonable(obj), sort_keys=True)
