"""I7 - program DSL: seeded generator, Python-source emitter and independent reference evaluators.

A program is a JSON-able SSA list over a hand-typed vocabulary.  From one program we derive
  * a real torch.nn.Module by emitting straight-line Python source (Dynamo friendly; the source is the witness);
  * reference results by interpreting the DSL directly under a chosen semantics:
        plain      - the original torch ops
        recipe     - the User-Guide hand conversion to unit scaling (decided on the DSL graph with networkx)
        quantised  - straight-through quantisers written by hand at linear / attention boundaries
    and compositions (recipe then quantised).
The reference never touches FX, Dynamo, torch_map, _replacement_map or any graph-rewriting code of the library.
"""

from __future__ import annotations

import hashlib
import importlib.util
import json
import os
import random
import sys
from typing import Any, Callable, Dict, List, Optional, Tuple

# ------------------------------------------------------------------------------------------ generator


class Builder:
    def __init__(self, rng: random.Random, dtype: str, B: int, S: int, D: int, V: int):
        self.rng, self.dtype, self.B, self.S, self.D, self.V = rng, dtype, B, S, D, V
        self.inputs: List[Dict[str, Any]] = []
        self.mods: List[Dict[str, Any]] = []
        self.params: List[Dict[str, Any]] = []
        self.ops: List[Dict[str, Any]] = []
        self.info: Dict[str, Dict[str, Any]] = {}
        self.n = 0

    def inp(self, kind: str, shape: List[int], **kw) -> str:
        name = f"x{len(self.inputs)}"
        self.inputs.append({"name": name, "kind": kind, "shape": shape, **kw})
        self.info[name] = {"shape": shape, "kind": kind}
        return name

    def mod(self, typ: str, args: List[Any], kw: Optional[Dict[str, Any]] = None) -> str:
        name = f"m{len(self.mods)}"
        self.mods.append({"name": name, "type": typ, "args": args, "kw": kw or {}})
        return name

    def param(self, shape: List[int], scale: float = 1.0, const: Optional[float] = None) -> str:
        name = f"p{len(self.params)}"
        self.params.append({"name": name, "shape": shape, "scale": scale, "const": const})
        return name

    def op(self, op: str, ins: List[str], shape: List[int], kind: str = "float", **kw) -> str:
        self.n += 1
        out = f"v{self.n}"
        self.ops.append({"out": out, "op": op, "in": ins, "kw": kw})
        self.info[out] = {"shape": shape, "kind": kind}
        return out

    def shape(self, v: str) -> List[int]:
        return self.info[v]["shape"]


def _pick(rng, items, weights=None):
    return rng.choices(items, weights=weights)[0] if weights else rng.choice(items)


def gen_program(rng: random.Random, profile: Dict[str, Any]) -> Dict[str, Any]:
    """profile keys: dtype, max_ops, residual (0..4), forms (set of optional forms to allow), loss (bool), extras (bool: int/bool
    intermediates, lists, multiple outputs), quant_focus (bool: prefer linear/attention)."""
    dtype = profile.get("dtype", "float64")
    B, S = rng.sample([2, 3, 5], 2)
    D = rng.choice([4, 6, 8])
    H = rng.choice([d for d in (5, 7, 10, 12) if d != D])
    # boundaries: sizes are pairwise distinct by default (a wrong-axis slip cannot hide), but coincidences and sizes of 1 are
    # cases of their own: square projections, batch == sequence length, a single sequence / a single token
    r = rng.random()
    if r < 0.12:
        H = D
    elif r < 0.20:
        S = B
    elif r < 0.27:
        B = 1
    elif r < 0.34:
        S = 1
    V = rng.choice([11, 13, 17])
    b = Builder(rng, dtype, B, S, D, V)
    forms = set(profile.get("forms", []))
    start = rng.choice(["float", "float", "embedding", "embedding_sum"]) if "embedding" in forms else "float"
    if start == "float":
        h = b.inp("float", [B, S, D])
    else:
        ids = b.inp("int", [B, S], high=V)
        if rng.random() < 0.5:
            w = b.param([V, D])
            h = b.op("embedding_f", [ids, w], [B, S, D])
        else:
            ek = {"padding_idx": 0} if rng.random() < 0.3 else {}
            m = b.mod("nn.Embedding", [V, D], dict(ek))
            h = b.op("nn_embedding", [ids], [B, S, D], mod=m, **ek)
        if start == "embedding_sum":
            # token + position embeddings: a plain sum that later serves as a skip tensor
            pos = b.param([S, D])
            h = b.op("add", [h, pos], [B, S, D])
    budget = rng.randint(1, profile.get("max_ops", 12))
    n_res = rng.randint(0, profile.get("residual", 0))
    state = {"budget": budget, "n_res": n_res}
    outs: List[str] = []
    if n_res >= 2 and budget >= 4 and rng.random() < 0.3:
        # DAG with PARALLEL branches, each with its own residual block(s), merged by a product or returned as two outputs:
        # the earlier residual block is then NOT an ancestor of the later one
        x_in = h
        sa = {"budget": budget // 2, "n_res": n_res // 2}
        sb = {"budget": budget - budget // 2, "n_res": n_res - n_res // 2}
        a_ = _chain(b, b.op(rng.choice(["tanh", "relu", "silu"]), [x_in], b.shape(x_in)), sa, profile, H, depth=0)
        b_ = _chain(b, b.op(rng.choice(["tanh", "relu", "gelu"]), [x_in], b.shape(x_in)), sb, profile, H, depth=0)
        if rng.random() < 0.6:
            h = b.op("mul", [a_, b_], b.shape(a_))
            outs = [h]
        else:
            h = b_
            outs = [a_, b_]
    else:
        h = _chain(b, h, state, profile, H, depth=0)
        outs = [h]
    if profile.get("extras") and rng.random() < 0.4:
        # second output computed from an intermediate (fan-out)
        cand = [o["out"] for o in b.ops if b.info[o["out"]]["kind"] == "float" and b.shape(o["out"]) == [B, S, D]]
        if cand:
            c = rng.choice(cand)
            outs.append(b.op("tanh", [c], [B, S, D]))
    if profile.get("loss") and len(outs) == 1 and rng.random() < 0.5:
        kind = rng.choice(["cross_entropy", "mse_loss"])
        if kind == "cross_entropy":
            w = b.param([V, D])
            logits = b.op("linear_f", [h, w], [B, S, V], bias="pos_none")
            flat = b.op("reshape", [logits], [B * S, V], to=[B * S, V])
            tgt = b.inp("int", [B * S], high=V)
            outs = [b.op("cross_entropy", [flat, tgt], [])]
        else:
            tgt = b.inp("float", [B, S, D])
            outs = [b.op("mse_loss", [h, tgt], [])]
    return {"dtype": dtype, "inputs": b.inputs, "mods": b.mods, "params": b.params, "ops": b.ops, "outputs": outs,
            "dims": {"B": B, "S": S, "D": D, "H": H, "V": V}}


def _chain(b: Builder, h: str, state, profile, H: int, depth: int) -> str:
    rng = b.rng
    while state["budget"] > 0:
        state["budget"] -= 1
        r = rng.random()
        if state["n_res"] > 0 and depth < 3 and r < 0.45:
            state["n_res"] -= 1
            skip = h
            inner = {"budget": rng.randint(1, 3), "n_res": state["n_res"] if rng.random() < 0.3 else 0}
            state["n_res"] -= inner["n_res"]
            r2 = rng.random()
            if r2 < 0.08:
                # the branch's first op takes the skip tensor in TWO argument slots: x + f(x * x)
                br = _step(b, b.op("mul", [skip, skip], b.shape(skip)), profile, H, force_mapped=True)
            elif r2 < 0.14:
                br = b.op("sdpa", [skip, skip, skip], b.shape(skip))  # ... in three: x + attention(x, x, x)
            else:
                br = _step(b, skip, profile, H, force_mapped=True)
            br = _chain(b, br, inner, profile, H, depth + 1)
            state["n_res"] += inner["n_res"]
            ins = [br, skip] if rng.random() < 0.5 else [skip, br]
            # in-place add only onto a tensor that autograd does not need again (output of a linear / matmul / conv op)
            prod = next((o["op"] for o in b.ops if o["out"] == br), "")
            inplace_ok = prod in ("nn_linear", "linear_f", "matmul", "uu_linear", "U_linear")
            form = "iadd" if (rng.random() < 0.3 and ins[0] == br and inplace_ok) else "add"
            h = b.op(form, ins, b.shape(skip))
        else:
            h = _step(b, h, profile, H)
    return h


def _step(b: Builder, h: str, profile, H: int, force_mapped: bool = False) -> str:
    """One shape-preserving step [B,S,D] -> [B,S,D] (possibly several ops)."""
    rng = b.rng
    B, S, D = b.shape(h)
    forms = set(profile.get("forms", []))
    mapped = ["linear_pair", "gelu", "silu", "softmax", "dropout", "layer_norm", "matmul", "sdpa", "linear_one", "gate", "gate"]
    if "conv1d" in forms:
        mapped.append("conv1d")
    unmapped = ["tanh", "relu", "mul_scalar", "neg", "reshape_roundtrip", "slice_cat", "add_scalar", "mul_tensor", "plain_add", "self_add", "sibling_add", "self_mul"]
    if rng.random() < 0.12:
        mapped = mapped + ["sdpa_self"]
    if profile.get("extras"):
        unmapped += ["rotate_half", "where_mask", "gather_argmax", "stack_mean", "where_mask2", "argmax_kw"]
    if "inplace_fn" in forms:
        unmapped += ["inplace_fn", "inplace_fn"]
    if profile.get("quant_focus"):
        mapped = ["linear_pair", "linear_one", "sdpa", "linear_one", "sdpa", "gelu", "layer_norm", "softmax"]
    choice = rng.choice(mapped) if (force_mapped or rng.random() < 0.65) else rng.choice(unmapped)
    if choice == "linear_pair":
        h = _linear(b, h, D, H, forms)
        h = b.op(rng.choice(["gelu", "silu", "relu", "tanh"]), [h], [B, S, H], **({"approximate": "tanh"} if rng.random() < 0.2 else {}))
        if b.ops[-1]["op"] != "gelu":
            b.ops[-1]["kw"] = {}
        return _linear(b, h, H, D, forms)
    if choice == "linear_one":
        return _linear(b, h, D, D, forms)
    if choice == "gate":
        # multi-input op whose operands are the current tensor itself and something computed from it (gating / weighting):
        # h * g(linear(h)) or g(linear(h)) * h, also via matmul with a softmax-ed square map
        t = _linear(b, h, D, D, forms)
        kind = rng.choice(["softmax", "softmax", "tanh", "silu", "gelu"])
        gte = b.op(kind, [t], [B, S, D], **({"dim": -1} if kind == "softmax" else {}))
        ins = [h, gte] if rng.random() < 0.5 else [gte, h]
        return b.op("mul", ins, [B, S, D])
    if choice in ("gelu", "silu", "tanh", "relu", "neg"):
        kw = {"approximate": "tanh"} if (choice == "gelu" and rng.random() < 0.3) else {}
        if choice == "gelu" and "nn_gelu" in forms and rng.random() < 0.3:
            # non-default constructor options of the torch.nn wrappers travel with the module, not with the call
            if rng.random() < 0.4:
                m = b.mod("nn.GELU", [], {"approximate": "tanh"})
                return b.op("nn_gelu", [h], [B, S, D], mod=m, approximate="tanh")
            m = b.mod("nn.GELU", [], {})
            return b.op("nn_gelu", [h], [B, S, D], mod=m)
        return b.op(choice, [h], [B, S, D], **kw)
    if choice == "softmax":
        if "nn_softmax" in forms and rng.random() < 0.3:
            dim = rng.choice([-1, -1, 1, -2, 2])
            m = b.mod("nn.Softmax", [], {"dim": dim})
            return b.op("nn_softmax", [h], [B, S, D], mod=m, dim=dim)
        return b.op("softmax", [h], [B, S, D], dim=-1)
    if choice == "dropout":
        if rng.random() < 0.5:
            return b.op("dropout", [h], [B, S, D], p=0.0, training=True)
        return b.op("dropout", [h], [B, S, D], p=rng.choice([0.1, 0.5]), training=False)
    if choice == "layer_norm":
        if rng.random() < 0.5:
            lk = {}
            if rng.random() < 0.4:
                lk["eps"] = rng.choice([1e-3, 1e-2])
            if rng.random() < 0.25:
                lk["elementwise_affine"] = False
            m = b.mod("nn.LayerNorm", [D], dict(lk))
            return b.op("nn_layer_norm", [h], [B, S, D], mod=m, normalized_shape=[D], **lk)
        g, bb = b.param([D], const=1.0), b.param([D], const=0.0)
        return b.op("layer_norm", [h, g, bb], [B, S, D], normalized_shape=[D])
    if choice == "matmul":
        w = b.param([D, D])
        # the product written as a function call or with the @ operator (the same operation to the reader)
        return b.op("matmul", [h, w], [B, S, D], mform=rng.choice(["fn", "fn", "at"]))
    if choice == "conv1d":
        t = b.op("transpose", [h], [B, D, S], dims=[1, 2])
        if "nn_conv1d" in forms and rng.random() < 0.4:
            m = b.mod("nn.Conv1d", [D, D, 3], {"padding": 1})
            c = b.op("nn_conv1d", [t], [B, D, S], mod=m)
        else:
            w = b.param([D, D, 3])
            c = b.op("conv1d", [t, w], [B, D, S], padding=1)
        return b.op("transpose", [c], [B, S, D], dims=[1, 2])
    if choice == "sdpa":
        q, k, v = (_linear(b, h, D, D, forms) for _ in range(3))
        mode = rng.choice(["none", "none", "causal", "mask_kw", "mask_pos"] if "mask_pos" in forms else ["none", "none", "causal", "mask_kw"])
        ins = [q, k, v]
        kw: Dict[str, Any] = {}
        if mode == "causal":
            kw["is_causal"] = True
        elif mode in ("mask_kw", "mask_pos"):
            mk = b.inp("bool", [S, S])
            ins.append(mk)
            kw["mask"] = "kw" if mode == "mask_kw" else "pos"
        return b.op("sdpa", ins, [B, S, D], **kw)
    if choice == "mul_scalar":
        return b.op("mul_scalar", [h], [B, S, D], c=rng.choice([0.5, 2.0, -1.5]))
    if choice == "inplace_fn":
        # an in-place op written as a FUNCTION and used as a bare statement (its result is discarded, the mutated tensor is used
        # on): F.relu(t, inplace=True) / torch.relu_(t) / torch.clamp_(t, min=0) on a fresh product
        t = b.op("mul_scalar", [h], [B, S, D], c=rng.choice([1.5, -2.0]))
        return b.op("relu_inplace_fn", [t], [B, S, D], spell=rng.choice(["F.relu", "torch.relu_", "torch.clamp_"]))
    if choice == "add_scalar":
        return b.op("add_scalar", [h], [B, S, D], c=rng.choice([1.0, -0.25, 2]))
    if choice == "mul_tensor":
        w = b.param([D])
        return b.op("mul", [h, w], [B, S, D])
    if choice == "plain_add":
        w = b.param([D]) if rng.random() < 0.5 else b.param([B, S, D])
        return b.op("add", [h, w], [B, S, D])
    if choice == "self_mul":
        return b.op("mul", [h, h], [B, S, D])  # x * x: ONE tensor in two argument slots of the same consumer
    if choice == "sdpa_self":
        return b.op("sdpa", [h, h, h], [B, S, D])  # self-attention without projections: the same tensor as query, key and value
    if choice == "self_add":
        return b.op("add", [h, h], [B, S, D])  # x + x: neither operand is computed from the other -> a plain add
    if choice == "sibling_add":
        # two tensors computed from the same source, neither from the other: a plain add, not a residual one
        a_ = b.op("tanh", [h], [B, S, D])
        c_ = b.op("relu", [h], [B, S, D])
        return b.op("add", [a_, c_], [B, S, D])
    if choice == "reshape_roundtrip":
        t = b.op("reshape", [h], [B * S, D], to=[B * S, D])
        return b.op("reshape", [t], [B, S, D], to=[B, S, D])
    if choice == "slice_cat":
        k = D // 2
        a = b.op("slice_last", [h], [B, S, k], lo=0, hi=k)
        c = b.op("slice_last", [h], [B, S, D - k], lo=k, hi=D)
        return b.op("cat", [c, a], [B, S, D], dim=-1, lform=b.rng.choice(["list", "list", "tuple", "kw-list", "kw-tuple"]))
    if choice == "rotate_half":
        k = D // 2
        a = b.op("slice_last", [h], [B, S, k], lo=0, hi=k)
        c = b.op("slice_last", [h], [B, S, D - k], lo=k, hi=D)
        nc = b.op("neg", [c], [B, S, D - k])
        return b.op("cat", [nc, a], [B, S, D], dim=-1, lform=b.rng.choice(["list", "list", "tuple", "kw-list", "kw-tuple"]))
    if choice == "where_mask":
        m = b.op("gt_scalar", [h], [B, S, D], kind="bool", c=0.0)
        z = b.op("mul_scalar", [h], [B, S, D], c=0.1)
        return b.op("where", [m, h, z], [B, S, D])
    if choice == "where_mask2":
        # a mask computed from TWO float tensors that exist only for it: |h| > |tanh(h)| (the non-float node has two float inputs,
        # so it cannot be bypassed - its float producers lose their only consumer when it is pruned)
        a_ = b.op("abs", [h], [B, S, D])
        t_ = b.op("tanh", [h], [B, S, D])
        b_ = b.op("abs", [t_], [B, S, D])
        m = b.op("gt_tensor", [a_, b_], [B, S, D], kind="bool")
        z = b.op("mul_scalar", [h], [B, S, D], c=0.1)
        return b.op("where", [m, h, z], [B, S, D])
    if choice == "argmax_kw":
        # an index computed from a float tensor handed over BY KEYWORD: torch.argmax(input=exp(h), ...)
        e_ = b.op("exp", [h], [B, S, D])
        idx = b.op("argmax", [e_], [B, S, 1], kind="int", dim=-1, keepdim=True, kwform=True)
        g = b.op("gather", [h, idx], [B, S, 1], dim=-1)
        return b.op("sub", [h, g], [B, S, D])
    if choice == "gather_argmax":
        idx = b.op("argmax", [h], [B, S, 1], kind="int", dim=-1, keepdim=True)
        g = b.op("gather", [h, idx], [B, S, 1], dim=-1)
        return b.op("sub", [h, g], [B, S, D])
    if choice == "stack_mean":
        t = b.op("tanh", [h], [B, S, D])
        s = b.op("stack", [h, t], [2, B, S, D], dim=0, lform=b.rng.choice(["list", "list", "tuple", "kw-list", "kw-tuple"]))
        return b.op("mean_dim", [s], [B, S, D], dim=0)
    raise AssertionError(choice)


def _linear(b: Builder, h: str, din: int, dout: int, forms) -> str:
    rng = b.rng
    shape = b.shape(h)[:-1] + [dout]
    style = ["nn_linear", "nn_linear", "linear_f"]
    if "uu" in forms:
        style += ["uu_linear", "U_linear"]
    s = rng.choice(style)
    if s == "nn_linear":
        m = b.mod("nn.Linear", [din, dout], {"bias": rng.random() < 0.6})
        return b.op("nn_linear", [h], shape, mod=m)
    if s == "uu_linear":
        m = b.mod("uu.Linear", [din, dout], {"bias": rng.random() < 0.4})
        return b.op("uu_linear", [h], shape, mod=m)
    w = b.param([dout, din], scale=din ** -0.5)
    if s == "U_linear":
        return b.op("U_linear", [h, w], shape)
    modes = ["pos", "pos_none"]
    if "linear_2arg" in forms:
        modes.append("none2")
    if "bias_kw" in forms:
        modes.append("kw")
    mode = rng.choice(modes)
    ins = [h, w]
    if mode in ("pos", "kw"):
        ins.append(b.param([dout], scale=0.1))
    return b.op("linear_f", ins, shape, bias=mode)


# ------------------------------------------------------------------------------------------ emitter
def emit_source(prog: Dict[str, Any]) -> str:
    L = ["import torch", "import torch.nn as nn", "import torch.nn.functional as F", "import unit_scaling as uu",
         "import unit_scaling.functional as U", "", "",
         "def my_act(x):", "    # a user's own implementation of an activation (cf. the `replace=` example in the unit_scale docs)",
         "    return x * torch.sigmoid(1.702 * x)", "", "", "class Gen(nn.Module):", "    def __init__(self):", "        super().__init__()"]
    for m in prog["mods"]:
        args = ", ".join([repr(a) for a in m["args"]] + [f"{k}={v!r}" for k, v in m["kw"].items()])
        L.append(f"        self.{m['name']} = {m['type']}({args})")
    for p in prog["params"]:
        L.append(f"        self.{p['name']} = nn.Parameter(torch.zeros({p['shape']!r}))")
    L.append("")
    L.append(f"    def forward(self, {', '.join(i['name'] for i in prog['inputs'])}):")
    for o in prog["ops"]:
        L.append("        " + emit_op(o))
    outs = prog["outputs"]
    L.append("        return " + (outs[0] if len(outs) == 1 else "(" + ", ".join(outs) + ")"))
    return "\n".join(L) + "\n"


def emit_op(o: Dict[str, Any]) -> str:
    op, i, kw, out = o["op"], o["in"], o["kw"], o["out"]

    def P(n):  # parameters live on self
        return f"self.{n}" if n.startswith("p") else n
    a = [P(x) for x in i]
    if op == "linear_f":
        mode = kw["bias"]
        if mode == "none2":
            return f"{out} = F.linear({a[0]}, {a[1]})"
        if mode == "pos_none":
            return f"{out} = F.linear({a[0]}, {a[1]}, None)"
        if mode == "pos":
            return f"{out} = F.linear({a[0]}, {a[1]}, {a[2]})"
        return f"{out} = F.linear({a[0]}, {a[1]}, bias={a[2]})"
    if op == "U_linear":
        return f"{out} = U.linear({a[0]}, {a[1]}, None)"
    if op in ("nn_linear", "uu_linear", "nn_gelu", "nn_softmax", "nn_layer_norm", "nn_embedding", "nn_conv1d"):
        return f"{out} = self.{kw['mod']}({a[0]})"
    if op == "matmul":
        return f"{out} = {a[0]} @ {a[1]}" if kw.get("mform") == "at" else f"{out} = torch.matmul({a[0]}, {a[1]})"
    if op == "gelu":
        return f"{out} = F.gelu({a[0]}" + (f", approximate={kw['approximate']!r})" if "approximate" in kw else ")")
    if op == "custom_act":
        return f"{out} = my_act({a[0]})"
    if op == "silu":
        return f"{out} = F.silu({a[0]})"
    if op == "relu":
        return f"{out} = F.relu({a[0]})"
    if op == "tanh":
        return f"{out} = torch.tanh({a[0]})"
    if op == "neg":
        return f"{out} = -{a[0]}"
    if op == "softmax":
        return f"{out} = F.softmax({a[0]}, dim={kw['dim']})"
    if op == "dropout":
        return f"{out} = F.dropout({a[0]}, {kw['p']}, {kw['training']})"
    if op == "layer_norm":
        return f"{out} = F.layer_norm({a[0]}, {tuple(kw['normalized_shape'])!r}, {a[1]}, {a[2]})"
    if op == "embedding_f":
        return f"{out} = F.embedding({a[0]}, {a[1]})"
    if op == "conv1d":
        return f"{out} = F.conv1d({a[0]}, {a[1]}, None, 1, {kw['padding']})"
    if op == "sdpa":
        s = f"{out} = F.scaled_dot_product_attention({a[0]}, {a[1]}, {a[2]}"
        if kw.get("mask") == "kw":
            s += f", attn_mask={a[3]}"
        elif kw.get("mask") == "pos":
            s += f", {a[3]}"
        if kw.get("is_causal"):
            s += ", is_causal=True"
        return s + ")"
    if op == "cross_entropy":
        return f"{out} = F.cross_entropy({a[0]}, {a[1]})"
    if op == "mse_loss":
        return f"{out} = F.mse_loss({a[0]}, {a[1]})"
    if op == "add":
        return f"{out} = {a[0]} + {a[1]}"
    if op == "iadd":
        return f"{out} = {a[0]}; {out} += {a[1]}"
    if op == "sub":
        return f"{out} = {a[0]} - {a[1]}"
    if op == "add_scalar":
        return f"{out} = {a[0]} + {kw['c']!r}"
    if op == "mul_scalar":
        return f"{out} = {a[0]} * {kw['c']!r}"
    if op == "relu_inplace_fn":
        stmt = {"F.relu": f"F.relu({a[0]}, inplace=True)", "torch.relu_": f"torch.relu_({a[0]})", "torch.clamp_": f"torch.clamp_({a[0]}, min=0.0)"}[kw["spell"]]
        return stmt + f"\n        {out} = {a[0]}"
    if op == "mul":
        return f"{out} = {a[0]} * {a[1]}"
    if op == "reshape":
        return f"{out} = {a[0]}.reshape({kw['to']!r})"
    if op == "transpose":
        return f"{out} = {a[0]}.transpose({kw['dims'][0]}, {kw['dims'][1]})"
    if op == "slice_last":
        return f"{out} = {a[0]}[..., {kw['lo']}:{kw['hi']}]"
    if op in ("cat", "stack"):
        # the list of tensors written as a list or a tuple, positionally or by keyword
        lf = kw.get("lform", "list")
        seq = ("[" + ", ".join(a) + "]") if lf.endswith("list") else ("(" + ", ".join(a) + ")")
        return f"{out} = torch.{op}({'tensors=' if lf.startswith('kw') else ''}{seq}, dim={kw['dim']})"
    if op == "mean_dim":
        return f"{out} = {a[0]}.mean(dim={kw['dim']})"
    if op == "gt_scalar":
        return f"{out} = {a[0]} > {kw['c']!r}"
    if op == "gt_tensor":
        return f"{out} = {a[0]} > {a[1]}"
    if op == "abs":
        return f"{out} = {a[0]}.abs()"
    if op == "exp":
        return f"{out} = torch.exp({a[0]} * 0.1)"
    if op == "where":
        return f"{out} = torch.where({a[0]}, {a[1]}, {a[2]})"
    if op == "argmax":
        return f"{out} = torch.argmax({'input=' if kw.get('kwform') else ''}{a[0]}, dim={kw['dim']}, keepdim={kw['keepdim']})"
    if op == "gather":
        return f"{out} = torch.gather({a[0]}, dim={kw['dim']}, index={a[1]})"
    raise AssertionError(op)


_LOADED: Dict[str, Any] = {}


def load_module_class(prog: Dict[str, Any]):
    """Write the emitted source to a scratch file and import it (Dynamo wants real files)."""
    src = emit_source(prog)
    h = hashlib.blake2b(src.encode(), digest_size=8).hexdigest()
    if h in _LOADED:
        return _LOADED[h], src
    d = os.environ.get("VMON_SCRATCH") or os.path.join(os.environ.get("VERIF_HOME", "."), ".scratch", "progs")
    os.makedirs(d, exist_ok=True)
    path = os.path.join(d, f"prog_{h}_{os.getpid()}.py")  # per-process file: workers may emit the same program concurrently
    with open(path, "w") as f:
        f.write(src)
    spec = importlib.util.spec_from_file_location(f"vmon_prog_{h}", path)
    mod = importlib.util.module_from_spec(spec)
    sys.modules[spec.name] = mod
    spec.loader.exec_module(mod)
    _LOADED[h] = mod.Gen
    return mod.Gen, src


def build_module(prog: Dict[str, Any], seed: int):
    """Instantiate the emitted module with seeded parameters (training mode, program dtype)."""
    import torch

    Gen, src = load_module_class(prog)
    torch.manual_seed(seed)
    m = Gen()
    g = torch.Generator().manual_seed(seed + 1)
    with torch.no_grad():
        for p in prog["params"]:
            t = getattr(m, p["name"])
            if p.get("const") is not None:
                t.fill_(p["const"])
            else:
                t.copy_(torch.randn(t.shape, generator=g) * p.get("scale", 1.0))
        for name, t in m.named_parameters():
            if name.split(".")[0].startswith("m") and t.dim() >= 1 and "bias" in name:
                t.copy_(torch.randn(t.shape, generator=g) * 0.1)  # non-zero biases: re-initialisation becomes observable
    dt = {"float64": torch.float64, "float32": torch.float32}[prog["dtype"]]
    return m.to(dt), src


def make_inputs(prog: Dict[str, Any], seed: int):
    import torch

    g = torch.Generator().manual_seed(seed)
    dt = {"float64": torch.float64, "float32": torch.float32}[prog["dtype"]]
    out = []
    for i in prog["inputs"]:
        if i["kind"] == "float":
            out.append(torch.randn(i["shape"], generator=g, dtype=torch.float64).to(dt))
        elif i["kind"] == "int":
            out.append(torch.randint(0, i["high"], i["shape"], generator=g))
        else:
            m = torch.rand(i["shape"], generator=g) < 0.7
            m[..., 0] = True
            out.append(m)
    return out


# ------------------------------------------------------------------------------------------ analysis
def analyse(prog: Dict[str, Any]) -> Dict[str, Any]:
    """Residual structure of the DSL graph (networkx), from the recipe's wording only:
    an addition in which one operand is computed from the other is a residual add."""
    import networkx as nx

    G = nx.DiGraph()
    for o in prog["ops"]:
        G.add_node(o["out"])
        for x in o["in"]:
            G.add_edge(x, o["out"])
    byout = {o["out"]: o for o in prog["ops"]}
    anc = {n: nx.ancestors(G, n) for n in G.nodes}
    residual: Dict[str, Dict[str, Any]] = {}
    for o in prog["ops"]:
        if o["op"] in ("add", "iadd") and len(o["in"]) == 2:
            l, r = o["in"]
            if l in anc.get(r, ()) or r in anc.get(l, ()):
                skip, res = (l, r) if l in anc.get(r, ()) else (r, l)
                # ops of the branch: ancestors of the residual operand that descend from the skip tensor, plus the operand itself
                branch = {res} | {n for n in anc[res] if n in byout and skip in anc.get(n, ())}
                attn = any(byout[n]["op"] in ("softmax", "nn_softmax", "sdpa") for n in branch if n in byout)
                residual[o["out"]] = {"skip": skip, "res": res, "tau": 0.01 if attn else 0.5}
    res_adds = set(residual)
    has_res_succ = set()
    for a in res_adds:
        has_res_succ |= anc[a]
        has_res_succ.add(a)
    skip_of = {}
    for a, info in residual.items():
        skip_of.setdefault(info["skip"], []).append(a)
    return {"residual": residual, "has_residual_successor": has_res_succ, "skip_of": skip_of, "anc": anc}


# ------------------------------------------------------------------------------------------ interpreter
class Quant:
    """Hand-written straight-through quantisers built on the caller's FPFormat.quantise (trusted through C13/C14)."""

    def __init__(self, fwd, bwd):
        self.fwd, self.bwd = fwd, bwd

    def q_fwd(self, x):
        import torch

        fmt = self.fwd

        class Fn(torch.autograd.Function):
            @staticmethod
            def forward(ctx, t):
                return fmt.quantise(t)

            @staticmethod
            def backward(ctx, g):
                return g
        return Fn.apply(x)

    def q_bwd(self, x):
        import torch

        fmt = self.bwd

        class Fn(torch.autograd.Function):
            @staticmethod
            def forward(ctx, t):
                return t.view_as(t)

            @staticmethod
            def backward(ctx, g):
                return fmt.quantise(g)
        return Fn.apply(x)


def interpret(prog: Dict[str, Any], params: Dict[str, Any], inputs: List[Any], semantics: str = "plain", quant: Optional[Quant] = None,
              training: bool = True, replace: Optional[Dict[str, Callable]] = None, mod_attrs: Optional[Dict[str, Dict[str, Any]]] = None):
    """semantics: 'plain' | 'recipe'.  quant: if given, linear / attention operands are forward-quantised and the gradient entering
    their output backward-quantised (applied AFTER the recipe when both are requested).
    params: name -> tensor ('p3', 'm1.weight', 'm1.bias')."""
    import torch
    import torch.nn.functional as F
    import unit_scaling.functional as U

    recipe = semantics == "recipe"
    A = analyse(prog) if recipe else None
    env: Dict[str, Any] = {i["name"]: t for i, t in zip(prog["inputs"], inputs)}
    for p in prog["params"]:
        env[p["name"]] = params[p["name"]]
    split_cache: Dict[str, Tuple[Any, Any]] = {}

    def val(name: str, consumer: str):
        """Value of `name` as seen by `consumer`: inside a residual block the branch reads the split's residual output."""
        if recipe and name in A["skip_of"]:
            adds = A["skip_of"][name]
            if name not in split_cache:
                tau = A["residual"][adds[0]]["tau"]
                split_cache[name] = U.residual_split(env[name], tau)
            r, s = split_cache[name]
            return s if consumer in adds else r
        return env[name]

    def lin(x, w, b, unit: bool, cons):
        if quant is not None:
            x, w = quant.q_fwd(x), quant.q_fwd(w)
        if unit:
            y = U.linear(x, w, b, **cons)
        else:
            y = F.linear(x, w, b)
        return quant.q_bwd(y) if quant is not None else y

    for o in prog["ops"]:
        op, kw, out = o["op"], o["kw"], o["out"]
        a = [val(x, out) for x in o["in"]]
        cons = {}
        if recipe and out not in A["has_residual_successor"]:
            cons = {"constraint": None}
        if replace and op in replace:
            env[out] = replace[op](*a, **cons)
            continue
        if op == "custom_act":
            env[out] = a[0] * torch.sigmoid(1.702 * a[0])
            continue
        if op == "linear_f":
            b_ = a[2] if len(a) > 2 else None
            env[out] = lin(a[0], a[1], b_, recipe, cons)
        elif op == "U_linear":
            env[out] = lin(a[0], a[1], None, True, cons)
        elif op in ("nn_linear", "uu_linear"):
            m = kw["mod"]
            env[out] = lin(a[0], params[f"{m}.weight"], params.get(f"{m}.bias"), recipe or op == "uu_linear",
                           cons if (recipe or False) else ({"constraint": (mod_attrs or {}).get(m, {}).get("constraint", "to_output_scale")} if op == "uu_linear" else {}))
        elif op == "matmul":
            env[out] = U.matmul(a[0], a[1], **cons) if recipe else torch.matmul(a[0], a[1])
        elif op in ("gelu", "nn_gelu"):
            ak = {"approximate": kw["approximate"]} if "approximate" in kw else {}
            env[out] = U.gelu(a[0], **ak, **cons) if recipe else F.gelu(a[0], **ak)
        elif op == "silu":
            env[out] = U.silu(a[0], **cons) if recipe else F.silu(a[0])
        elif op == "relu":
            env[out] = F.relu(a[0])
        elif op == "tanh":
            env[out] = torch.tanh(a[0])
        elif op == "neg":
            env[out] = -a[0]
        elif op in ("softmax", "nn_softmax"):
            env[out] = U.softmax(a[0], dim=kw.get("dim", -1), **cons) if recipe else F.softmax(a[0], dim=kw.get("dim", -1))
        elif op == "dropout":
            env[out] = U.dropout(a[0], kw["p"], kw["training"]) if recipe else F.dropout(a[0], kw["p"], kw["training"])
        elif op == "layer_norm":
            ns = tuple(kw["normalized_shape"])
            env[out] = U.layer_norm(a[0], ns, a[1], a[2]) if recipe else F.layer_norm(a[0], ns, a[1], a[2])
        elif op == "nn_layer_norm":
            m = kw["mod"]
            w_, b_ = params.get(f"{m}.weight"), params.get(f"{m}.bias")
            ns = tuple(kw["normalized_shape"]) if "normalized_shape" in kw else tuple(w_.shape)
            eps_ = kw.get("eps", 1e-5)
            env[out] = U.layer_norm(a[0], ns, w_, b_, eps_) if recipe else F.layer_norm(a[0], ns, w_, b_, eps_)
        elif op == "embedding_f":
            env[out] = U.embedding(a[0], a[1]) if recipe else F.embedding(a[0], a[1])
        elif op == "nn_embedding":
            w_ = params[f"{kw['mod']}.weight"]
            pk = {"padding_idx": kw["padding_idx"]} if "padding_idx" in kw else {}
            env[out] = U.embedding(a[0], w_, **pk) if recipe else F.embedding(a[0], w_, **pk)
        elif op == "conv1d":
            env[out] = U.conv1d(a[0], a[1], None, 1, kw["padding"], **cons) if recipe else F.conv1d(a[0], a[1], None, 1, kw["padding"])
        elif op == "nn_conv1d":
            m = kw["mod"]
            w_, b_ = params[f"{m}.weight"], params.get(f"{m}.bias")
            env[out] = U.conv1d(a[0], w_, b_, 1, 1, **cons) if recipe else F.conv1d(a[0], w_, b_, 1, 1)
        elif op == "sdpa":
            q, k, v = a[:3]
            akw = {}
            if "mask" in kw:
                akw["attn_mask"] = a[3]
            if kw.get("is_causal"):
                akw["is_causal"] = True
            if quant is not None:
                q, k, v = quant.q_fwd(q), quant.q_fwd(k), quant.q_fwd(v)
            y = U.scaled_dot_product_attention(q, k, v, **akw) if recipe else F.scaled_dot_product_attention(q, k, v, **akw)
            env[out] = quant.q_bwd(y) if quant is not None else y
        elif op == "cross_entropy":
            env[out] = U.cross_entropy(a[0], a[1]) if recipe else F.cross_entropy(a[0], a[1])
        elif op == "mse_loss":
            env[out] = U.mse_loss(a[0], a[1]) if recipe else F.mse_loss(a[0], a[1])
        elif op in ("add", "iadd"):
            if recipe and out in A["residual"]:
                info = A["residual"][out]
                res_v = a[0] if o["in"][0] == info["res"] else a[1]
                skip_v = a[1] if o["in"][0] == info["res"] else a[0]
                env[out] = U.residual_add(res_v, skip_v, info["tau"])
            elif recipe:
                env[out] = U.add(a[0], a[1], constraint=None)
            else:
                env[out] = a[0] + a[1]
        elif op == "sub":
            env[out] = a[0] - a[1]
        elif op == "add_scalar":
            env[out] = a[0] + kw["c"]
        elif op == "mul_scalar":
            env[out] = a[0] * kw["c"]
        elif op == "relu_inplace_fn":
            env[out] = F.relu(a[0])
        elif op == "mul":
            env[out] = a[0] * a[1]
        elif op == "reshape":
            env[out] = a[0].reshape(kw["to"])
        elif op == "transpose":
            env[out] = a[0].transpose(*kw["dims"])
        elif op == "slice_last":
            env[out] = a[0][..., kw["lo"]:kw["hi"]]
        elif op == "cat":
            env[out] = torch.cat(a, dim=kw["dim"])
        elif op == "stack":
            env[out] = torch.stack(a, dim=kw["dim"])
        elif op == "mean_dim":
            env[out] = a[0].mean(dim=kw["dim"])
        elif op == "gt_tensor":
            env[out] = a[0] > a[1]
        elif op == "abs":
            env[out] = a[0].abs()
        elif op == "exp":
            env[out] = torch.exp(a[0] * 0.1)
        elif op == "gt_scalar":
            env[out] = a[0] > kw["c"]
        elif op == "where":
            env[out] = torch.where(a[0], a[1], a[2])
        elif op == "argmax":
            env[out] = torch.argmax(a[0], dim=kw["dim"], keepdim=kw["keepdim"])
        elif op == "gather":
            env[out] = torch.gather(a[0], dim=kw["dim"], index=a[1])
        else:
            raise AssertionError(op)
    outs = [env[o] for o in prog["outputs"]]
    return outs, env


def features(prog: Dict[str, Any]) -> List[str]:
    """Structural features used in mechanism keys and signatures."""
    ops = [o["op"] for o in prog["ops"]]
    f = set()
    for o in prog["ops"]:
        if o["op"] == "linear_f":
            f.add("F.linear:" + o["kw"]["bias"])
        if o["op"] == "sdpa" and "mask" in o["kw"]:
            f.add("sdpa:mask-" + o["kw"]["mask"])
        if o["op"] in ("nn_softmax", "nn_conv1d", "nn_gelu", "uu_linear", "U_linear", "iadd", "nn_embedding", "embedding_f", "conv1d"):
            f.add(o["op"])
    A = analyse(prog)
    if A["residual"]:
        f.add(f"residual:{len(A['residual'])}")
        byout = {o["out"]: o for o in prog["ops"]}
        for a, info in A["residual"].items():
            sk = info["skip"]
            if sk in byout and byout[sk]["op"] in ("add", "iadd"):
                f.add("skip-is-residual-output" if sk in A["residual"] else "skip-is-plain-sum")
        last_res = max(prog["ops"].index(byout[a]) for a in A["residual"])
        if any(o["op"] in ("add", "iadd") and o["out"] not in A["residual"] for o in prog["ops"][last_res + 1:]):
            f.add("plain-add-after-last-residual")
    if any(o["op"] in ("add", "iadd") and o["out"] not in A["residual"] for o in prog["ops"]):
        f.add("plain-add")
    return sorted(f)
