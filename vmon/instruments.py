"""Shared instruments I1-I3, I5, I6 (see DESIGN.md section 3)."""

from __future__ import annotations

import contextlib
import sys
from typing import Any, Callable, Dict, List, Optional, Tuple

import torch

# ----------------------------------------------------------------------------- I1
TOL = {
    torch.float64: 1e-10,
    torch.float32: 2e-5,
    # 8 ulp of the dtype: library and reference apply the same kernels in a different order (thorough-tier sampling found
    # residuals of 4.04 ulp in bfloat16 rms_norm and 4.2 ulp in float16 silu_glu on the unchanged tree: 4 ulp was too tight)
    torch.bfloat16: 2.0**-5,
    torch.float16: 2.0**-8,
}
DTYPES = {
    "float64": torch.float64,
    "float32": torch.float32,
    "bfloat16": torch.bfloat16,
    "float16": torch.float16,
}


def fit_scalar(y: torch.Tensor, r: torch.Tensor) -> Tuple[Optional[float], float, float]:
    """Least-squares scalar s with y ~= s*r; returns (s, residual relative to max|y|, max|r|).
    s is None when the reference is identically zero (then y must be zero too: residual
    is max|y|)."""
    y64 = y.detach().to(torch.float64).reshape(-1)
    r64 = r.detach().to(torch.float64).reshape(-1)
    rmax = float(r64.abs().max()) if r64.numel() else 0.0
    if rmax == 0.0 or r64.numel() == 0:
        return None, float(y64.abs().max()) if y64.numel() else 0.0, rmax
    # work on r / max|r| (and y / max|r|): dot(r, r) of values around 1e-200 would underflow to 0
    rn, yn = r64 / rmax, y64 / rmax
    s = float(torch.dot(yn, rn)) / float(torch.dot(rn, rn))
    ymax = float(yn.abs().max())
    res = float((yn - s * rn).abs().max())
    denom = max(ymax, abs(s), 1e-300)
    return s, res / denom, rmax


# ----------------------------------------------------------------------------- I2
class ScaleSpy:
    """Observes every application of the scaling primitive by rebinding the module
    global that scale_fwd / scale_bwd look up at call time."""

    def __init__(self) -> None:
        self.trace: List[Tuple[Any, Any]] = []
        self._orig = None

    def __enter__(self) -> "ScaleSpy":
        import unit_scaling.scale as S

        self._S = S
        self._orig = S._scale
        orig = self._orig
        trace = self.trace

        def spy(t, fwd_scale=1.0, bwd_scale=1.0):
            trace.append((fwd_scale, bwd_scale))
            return orig(t, fwd_scale=fwd_scale, bwd_scale=bwd_scale)

        S._scale = spy
        return self

    def __exit__(self, *a) -> None:
        self._S._scale = self._orig

    def problems(self) -> List[str]:
        out = []
        for f, b in self.trace:
            for v in (f, b):
                if isinstance(v, torch.Tensor):
                    out.append("scale factor is a Tensor (data-carrying)")
                elif not isinstance(v, (int, float)):
                    out.append(f"scale factor of type {type(v).__name__}")
            if f != 1.0 and b != 1.0:
                out.append("one primitive call changes both passes")
        return out

    def factors(self) -> List[Tuple[float, float]]:
        return [
            (float(f), float(b))
            for f, b in self.trace
            if not isinstance(f, torch.Tensor) and not isinstance(b, torch.Tensor)
        ]


# ----------------------------------------------------------------------------- I3
class Snapshot:
    """Version-counter + value sanitizer for caller-owned tensors."""

    def __init__(self, tensors: Dict[str, Any]):
        self.items = []
        for name, t in tensors.items():
            if isinstance(t, torch.Tensor):
                self.items.append((name, t, t._version, t.detach().clone()))

    def changed(self) -> List[str]:
        bad = []
        for name, t, ver, val in self.items:
            if t._version != ver:
                bad.append(f"{name}: version {ver}->{t._version}")
            elif not bits_equal(t.detach(), val):
                bad.append(f"{name}: values changed")
        return bad


def bits_equal(a: torch.Tensor, b: torch.Tensor) -> bool:
    """Bit-for-bit equality (NaN == NaN, +0 != -0 ignored: uses equal_nan on values)."""
    if a.shape != b.shape or a.dtype != b.dtype:
        return False
    if a.is_floating_point():
        return bool(torch.equal(torch.nan_to_num(a, nan=12345.678), torch.nan_to_num(b, nan=12345.678)))
    return bool(torch.equal(a, b))


# ----------------------------------------------------------------------------- I5
def install(original: Callable, decorated: Callable) -> int:
    """Rebind `original` to `decorated` in every unit_scaling.* namespace and class
    attribute where it is referenced (from-imports copy references)."""
    n = 0
    for name, mod in list(sys.modules.items()):
        if mod is None or not name.startswith("unit_scaling"):
            continue
        for k, v in list(vars(mod).items()):
            if v is original:
                setattr(mod, k, decorated)
                n += 1
            elif isinstance(v, type) and getattr(v, "__module__", "").startswith("unit_scaling"):
                for ck, cv in list(vars(v).items()):
                    if cv is original:
                        setattr(v, ck, decorated)
                        n += 1
                    elif isinstance(cv, staticmethod) and cv.__func__ is original:
                        setattr(v, ck, staticmethod(decorated))
                        n += 1
    return n


# ----------------------------------------------------------------------------- I6
_ORIG_RANDINT = torch.randint


@contextlib.contextmanager
def pinned_randint(fn: Callable):
    """Replace torch.randint (looked up on the torch module at call time by formats.py)."""
    orig = torch.randint
    torch.randint = fn  # type: ignore[assignment]
    try:
        yield orig
    finally:
        torch.randint = orig  # type: ignore[assignment]


def shape_keyed_randint(low, high, size, dtype=torch.int64, device=None, **kw):
    """Deterministic function of (high, size) only: two implementations that draw for the
    same tensors in a different order still see identical offsets."""
    n = 1
    for s in size:
        n *= int(s)
    g = torch.Generator()
    g.manual_seed((hash((int(high), tuple(int(s) for s in size))) & 0x7FFFFFFF) + 17)
    idx = _ORIG_RANDINT(0, 2**31 - 1, (n,), generator=g, dtype=torch.int64)
    span = int(high) - int(low)
    return (idx % span + int(low)).reshape(tuple(size)).to(dtype)


EPS = {torch.float64: 2.0**-52, torch.float32: 2.0**-23, torch.bfloat16: 2.0**-7, torch.float16: 2.0**-10}


def grads_differ(ga, gb, tol: float, names=None, floor_mult: float = 64.0):
    """Compare two lists of gradients leaf by leaf. A gradient that is mathematically zero (e.g. of a key bias under softmax, of a
    bias in front of a normalisation) is pure rounding noise of size ~eps x (largest gradient in the run): such leaves are compared
    with an absolute floor of floor_mult * eps * global scale instead of relative to their own (meaningless) magnitude.
    Returns None or a description of the first differing leaf."""
    glob = 0.0
    for b in gb:
        if b is not None and b.numel():
            glob = max(glob, float(b.detach().abs().max()))
    for i, (a, b) in enumerate(zip(ga, gb)):
        if a is None and b is None:
            continue
        if a is None:
            a = torch.zeros_like(b)
        if b is None:
            b = torch.zeros_like(a)
        if tuple(a.shape) != tuple(b.shape):
            return f"{names[i] if names else 'leaf %d' % i}: shapes {tuple(a.shape)} vs {tuple(b.shape)}"
        if not a.numel():
            continue
        eps = EPS.get(b.dtype, 2.0**-23)
        leaf = max(float(b.detach().abs().max()), float(a.detach().abs().max()))
        err = float((a.detach().double() - b.detach().double()).abs().max())
        if not err <= tol * leaf + floor_mult * eps * glob:
            return f"{names[i] if names else 'leaf %d' % i}: abs err {err:.3e} (leaf scale {leaf:.3e}, largest gradient {glob:.3e}, rel {err / max(leaf, 1e-300):.3e})"
    return None


# ----------------------------------------------------------------------------- call forms
def positional_call(f: Callable, args: tuple, kwargs: Dict[str, Any], order: Optional[List[str]] = None) -> Any:
    """f(*args, **kwargs) re-spelled with every argument up to the last one given passed BY POSITION, following the DOCUMENTED
    parameter order `order` (vmon/api_orders.py; defaults of skipped parameters are read from the function's own signature by
    NAME). The documented order is part of a public signature: a reordering, or a positional/keyword mix-up inside a wrapper, only
    shows in this spelling. Arguments not named in `order` stay keywords."""
    import inspect

    if order is None:
        return f(*args, **kwargs)
    sig = inspect.signature(f)
    defaults = {p.name: p.default for p in sig.parameters.values() if p.default is not inspect.Parameter.empty}
    given = dict(zip(order, args))
    extra_kw = {}
    for k, v in kwargs.items():
        if k in order:
            given[k] = v
        else:
            extra_kw[k] = v
    last = max((order.index(k) for k in given), default=-1)
    pos = []
    for name in order[: last + 1]:
        if name in given:
            pos.append(given[name])
        elif name in defaults:
            pos.append(defaults[name])
        else:
            return f(*args, **kwargs)  # a gap without a default: keep the keyword spelling
    return f(*pos, **extra_kw)


class PositionalProxy:
    """module-like object whose (documented) functions are called through positional_call"""

    def __init__(self, mod: Any, orders: Dict[str, List[str]]):
        self._mod, self._orders = mod, orders

    def __getattr__(self, name: str) -> Any:
        f = getattr(self._mod, name)
        if name in self._orders:
            return lambda *a, **k: positional_call(f, a, k, self._orders[name])
        return f
