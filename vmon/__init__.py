"""Runtime-monitoring framework for graphcore-research/unit-scaling (see /verif/DESIGN.md)."""
