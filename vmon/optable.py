"""Hand-written table of the public unit-scaled functions, their independent PyTorch
references and seeded configuration generators (instrument I1's reference table).

Nothing here is derived from the library: the reference for every function is typed by
hand from the API reference (mult temperature applied to the PyTorch op).
"""

from __future__ import annotations

import math
import random
from typing import Any, Callable, Dict, List, Optional, Tuple

import torch
import torch.nn.functional as F

from .common import loguniform
from .instruments import DTYPES

BINARY = [None, "gmean", "hmean", "amean", "to_output_scale", "to_grad_input_scale"]
TERNARY = [None, "gmean", "hmean", "amean", "to_output_scale", "to_left_grad_scale", "to_right_grad_scale"]

_PRIMES = [2, 3, 5, 7, 11, 13, 17, 19, 23]


def distinct(rng: random.Random, n: int, pool: Optional[List[int]] = None) -> List[int]:
    """n pairwise-distinct sizes, so that a wrong-axis mistake cannot coincide."""
    pool = pool or [2, 3, 4, 5, 6, 7, 9, 11, 13]
    s = rng.sample(pool, n)
    # ... but coincidences are a boundary of their own (square weights, seq_len == d_head, batch == width): a shortcut such as
    # `if fan_in == fan_out` only shows there. One case in six gets two equal sizes, one in twelve a size of 1.
    r = rng.random()
    if n >= 2 and r < 1 / 6:
        i, j = rng.sample(range(n), 2)
        s[j] = s[i]
    elif n >= 2 and r < 1 / 6 + 1 / 12:
        s[rng.randrange(n)] = 1
    return s


def pick_mult(rng: random.Random) -> float:
    r = rng.random()
    if r < 0.2:
        return 1.0
    if r < 0.3:
        return rng.choice([1 / 16, 16.0, 0.25, 4.0])
    return loguniform(rng, 1 / 16, 16)


def _randn(gen: torch.Generator, shape, dtype) -> torch.Tensor:
    return torch.randn(tuple(shape), generator=gen, dtype=torch.float64).to(dtype)


class Op:
    name = ""
    constraint_kind: Optional[str] = None  # "binary" | "ternary" | None
    default_constraint: Optional[str] = "to_output_scale"
    exact_one = False  # forward scalar must be exactly 1
    diff: List[str] = []  # differentiable tensor inputs
    constrained: List[str] = []  # inputs whose gradient scale joins the constraint
    random_op = False

    def gen(self, rng: random.Random) -> Dict[str, Any]:
        raise NotImplementedError

    def build(self, cfg: Dict[str, Any], gen: torch.Generator, dtype: torch.dtype) -> Dict[str, Any]:
        raise NotImplementedError

    def call_u(self, U, a: Dict[str, Any], cfg: Dict[str, Any], constraint: Any) -> torch.Tensor:
        raise NotImplementedError

    def call_ref(self, a: Dict[str, Any], cfg: Dict[str, Any], grad_ref: bool = False) -> torch.Tensor:
        raise NotImplementedError

    def constraints(self) -> List[Any]:
        if self.constraint_kind == "binary":
            return BINARY
        if self.constraint_kind == "ternary":
            return TERNARY
        return ["n/a"]


def _ckw(constraint: Any) -> Dict[str, Any]:
    return {} if constraint in ("default", "n/a") else {"constraint": constraint}


def _lead(rng: random.Random, sizes: List[int]) -> List[int]:
    k = rng.choice([0, 1, 1, 2, 3])
    return sizes[:k]


class Gelu(Op):
    name = "gelu"
    constraint_kind = "binary"
    diff = ["input"]
    constrained = ["input"]

    def gen(self, rng):
        s = distinct(rng, 4)
        return {"shape": _lead(rng, s) + [s[3]], "mult": pick_mult(rng), "approximate": rng.choice(["none", "tanh"])}

    def build(self, cfg, gen, dtype):
        return {"input": _randn(gen, cfg["shape"], dtype)}

    def call_u(self, U, a, cfg, constraint):
        return U.gelu(a["input"], mult=cfg["mult"], approximate=cfg["approximate"], **_ckw(constraint))

    def call_ref(self, a, cfg, grad_ref=False):
        m = cfg["mult"]
        return F.gelu(a["input"] * m, approximate=cfg["approximate"]) / m


class Silu(Op):
    name = "silu"
    constraint_kind = "binary"
    diff = ["input"]
    constrained = ["input"]

    def gen(self, rng):
        s = distinct(rng, 4)
        return {"shape": _lead(rng, s) + [s[3]], "mult": pick_mult(rng)}

    def build(self, cfg, gen, dtype):
        return {"input": _randn(gen, cfg["shape"], dtype)}

    def call_u(self, U, a, cfg, constraint):
        return U.silu(a["input"], mult=cfg["mult"], **_ckw(constraint))

    def call_ref(self, a, cfg, grad_ref=False):
        m = cfg["mult"]
        return F.silu(a["input"] * m) / m


class SiluGlu(Op):
    name = "silu_glu"
    diff = ["input", "gate"]
    constrained = ["input", "gate"]  # fixed constraint: all three scales equal

    def gen(self, rng):
        s = distinct(rng, 4)
        return {"shape": _lead(rng, s) + [s[3]], "mult": pick_mult(rng)}

    def build(self, cfg, gen, dtype):
        return {"input": _randn(gen, cfg["shape"], dtype), "gate": _randn(gen, cfg["shape"], dtype)}

    def call_u(self, U, a, cfg, constraint):
        return U.silu_glu(a["input"], a["gate"], mult=cfg["mult"])

    def call_ref(self, a, cfg, grad_ref=False):
        m = cfg["mult"]
        return a["input"] * (F.silu(a["gate"] * m) / m)


class Softmax(Op):
    name = "softmax"
    constraint_kind = "binary"
    diff = ["input"]
    constrained = ["input"]

    def gen(self, rng):
        s = distinct(rng, 4)
        shape = _lead(rng, s) + [s[3]]
        dim = rng.randrange(-len(shape), len(shape))
        r = rng.random()
        mult = 1.0 if r < 0.2 else loguniform(rng, 1 / 8, 4)
        return {"shape": shape, "dim": dim, "mult": mult}

    def build(self, cfg, gen, dtype):
        return {"input": _randn(gen, cfg["shape"], dtype)}

    def call_u(self, U, a, cfg, constraint):
        return U.softmax(a["input"], dim=cfg["dim"], mult=cfg["mult"], **_ckw(constraint))

    def call_ref(self, a, cfg, grad_ref=False):
        return F.softmax(a["input"] * cfg["mult"], dim=cfg["dim"])


class Dropout(Op):
    name = "dropout"
    diff = ["input"]
    constrained = ["input"]
    random_op = True

    def gen(self, rng):
        s = distinct(rng, 4, [5, 7, 9, 11, 13, 16])
        return {"shape": _lead(rng, s) + [s[3]], "p": rng.choice([0.0, 0.1, 0.5, 0.9, round(rng.uniform(0.01, 0.95), 3)]),
                "training": rng.random() < 0.75}

    def build(self, cfg, gen, dtype):
        return {"input": _randn(gen, cfg["shape"], dtype)}

    def call_u(self, U, a, cfg, constraint):
        return U.dropout(a["input"], cfg["p"], cfg["training"])

    def call_ref(self, a, cfg, grad_ref=False):
        return F.dropout(a["input"], cfg["p"], cfg["training"])


class Matmul(Op):
    name = "matmul"
    constraint_kind = "ternary"
    diff = ["left", "right"]
    constrained = ["left", "right"]

    def gen(self, rng):
        s = distinct(rng, 6)
        a, b, c = s[:3]
        lead = _lead(rng, s[3:])
        mode = rng.choice(["equal", "equal", "equal", "left_only", "right_only", "bcast1"]) if lead else "equal"
        ll, rl = list(lead), list(lead)
        if mode == "left_only":
            rl = []
        elif mode == "right_only":
            ll = []
        elif mode == "bcast1":
            rl = [1] * len(lead)
        return {"left": ll + [a, b], "right": rl + [b, c], "equal_batch": mode == "equal"}

    def build(self, cfg, gen, dtype):
        return {"left": _randn(gen, cfg["left"], dtype), "right": _randn(gen, cfg["right"], dtype)}

    def call_u(self, U, a, cfg, constraint):
        return U.matmul(a["left"], a["right"], **_ckw(constraint))

    def call_ref(self, a, cfg, grad_ref=False):
        return torch.matmul(a["left"], a["right"])


class Linear(Op):
    name = "linear"
    constraint_kind = "binary"
    diff = ["input", "weight", "bias"]
    constrained = ["input"]

    def gen(self, rng):
        s = distinct(rng, 5)
        fi, fo = s[:2]
        return {"lead": _lead(rng, s[2:]), "fan_in": fi, "fan_out": fo, "bias": rng.random() < 0.5}

    def build(self, cfg, gen, dtype):
        a = {"input": _randn(gen, cfg["lead"] + [cfg["fan_in"]], dtype),
             "weight": _randn(gen, [cfg["fan_out"], cfg["fan_in"]], dtype)}
        a["bias"] = _randn(gen, [cfg["fan_out"]], dtype) if cfg["bias"] else None
        return a

    def call_u(self, U, a, cfg, constraint):
        return U.linear(a["input"], a["weight"], a["bias"], **_ckw(constraint))

    def call_ref(self, a, cfg, grad_ref=False):
        return F.linear(a["input"], a["weight"], a["bias"])


class LinearReadout(Linear):
    name = "linear_readout"
    default_constraint = None

    def call_u(self, U, a, cfg, constraint):
        return U.linear_readout(a["input"], a["weight"], a["bias"], **_ckw(constraint))


class Conv1d(Op):
    name = "conv1d"
    constraint_kind = "binary"
    diff = ["input", "weight", "bias"]
    constrained = ["input"]

    def gen(self, rng, padding_ok=True):
        groups = rng.choice([1, 1, 1, 2, 3, 4])
        cin_g, cout_g = distinct(rng, 2, [1, 2, 3, 4, 5])
        k = rng.choice([1, 2, 3, 4, 5, 7])
        stride = rng.choice([1, 1, 2, 3])
        dilation = rng.choice([1, 1, 2, 3])
        padding = rng.choice([0, 0, 1, 2, 3]) if padding_ok else 0
        need = dilation * (k - 1) + 1
        L = max(need - 2 * padding, 1) + rng.choice([0, 1, 2, 5, 9, 14])
        batch = rng.choice([None, 1, 2, 3, 6])
        return {"batch": batch, "cin": cin_g * groups, "cout": cout_g * groups, "k": k, "L": L, "stride": stride,
                "padding": padding, "dilation": dilation, "groups": groups, "bias": rng.random() < 0.5, "tuple_args": rng.random() < 0.2}

    def build(self, cfg, gen, dtype):
        shape = ([cfg["batch"]] if cfg["batch"] is not None else []) + [cfg["cin"], cfg["L"]]
        a = {"input": _randn(gen, shape, dtype),
             "weight": _randn(gen, [cfg["cout"], cfg["cin"] // cfg["groups"], cfg["k"]], dtype)}
        a["bias"] = _randn(gen, [cfg["cout"]], dtype) if cfg["bias"] else None
        return a

    def call_u(self, U, a, cfg, constraint):
        # F.conv1d takes ints or 1-tuples (torch.nn.Conv1d always passes 1-tuples): "tuple_args" uses the tuple spelling
        t = (lambda v: (v,)) if cfg.get("tuple_args") else (lambda v: v)
        return U.conv1d(a["input"], a["weight"], a["bias"], stride=t(cfg["stride"]), padding=t(cfg["padding"]),
                        dilation=t(cfg["dilation"]), groups=cfg["groups"], **_ckw(constraint))

    def call_ref(self, a, cfg, grad_ref=False):
        return F.conv1d(a["input"], a["weight"], a["bias"], cfg["stride"], cfg["padding"], cfg["dilation"], cfg["groups"])


class LayerNorm(Op):
    name = "layer_norm"
    exact_one = True
    diff = ["input", "weight", "bias"]

    def gen(self, rng):
        s = distinct(rng, 5)
        nn_ = rng.choice([1, 1, 2])
        lead = _lead(rng, s[2:]) or [s[4]]
        return {"lead": lead, "norm": s[:nn_], "weight": rng.random() < 0.6, "bias": rng.random() < 0.5,
                "eps": rng.choice([1e-5, 1e-3, 1e-8, 0.1])}

    def build(self, cfg, gen, dtype):
        a = {"input": _randn(gen, cfg["lead"] + cfg["norm"], dtype)}
        a["weight"] = _randn(gen, cfg["norm"], dtype) if cfg["weight"] else None
        a["bias"] = _randn(gen, cfg["norm"], dtype) if cfg["bias"] else None
        return a

    def call_u(self, U, a, cfg, constraint):
        return U.layer_norm(a["input"], tuple(cfg["norm"]), a["weight"], a["bias"], cfg["eps"])

    def call_ref(self, a, cfg, grad_ref=False):
        return F.layer_norm(a["input"], tuple(cfg["norm"]), a["weight"], a["bias"], cfg["eps"])


class RmsNorm(Op):
    name = "rms_norm"
    exact_one = True
    diff = ["input", "weight"]

    def gen(self, rng):
        s = distinct(rng, 5)
        nn_ = rng.choice([1, 1, 2])
        lead = _lead(rng, s[2:]) or [s[4]]
        return {"lead": lead, "norm": s[:nn_], "weight": rng.random() < 0.6, "eps": rng.choice([1e-5, 1e-3, 1e-8, 0.1])}

    def build(self, cfg, gen, dtype):
        a = {"input": _randn(gen, cfg["lead"] + cfg["norm"], dtype)}
        a["weight"] = _randn(gen, cfg["norm"], dtype) if cfg["weight"] else None
        return a

    def call_u(self, U, a, cfg, constraint):
        return U.rms_norm(a["input"], tuple(cfg["norm"]), a["weight"], cfg["eps"])

    def call_ref(self, a, cfg, grad_ref=False):
        x = a["input"]
        dims = tuple(range(-len(cfg["norm"]), 0))
        if x.dtype in (torch.float16, torch.bfloat16) and hasattr(F, "rms_norm"):
            # low precision: PyTorch's own op (it accumulates the squares in float32; the naive formula below overflows in
            # float16 for |x| > 256 and cannot serve as "the PyTorch result" there)
            return F.rms_norm(x, tuple(cfg["norm"]), a["weight"], cfg["eps"])
        # hand-written: x / sqrt(mean(x^2) + eps) * weight, in the input's own precision
        out = x / torch.sqrt(x.pow(2).mean(dims, keepdim=True) + cfg["eps"])
        if a["weight"] is not None:
            out = out * a["weight"]
        return out


class Add(Op):
    name = "add"
    constraint_kind = "ternary"
    diff = ["input", "other"]
    constrained = ["input", "other"]

    def gen(self, rng):
        s = distinct(rng, 4)
        rank = rng.choice([1, 2, 3, 4])
        full = s[:rank]
        mode = rng.choice(["same", "same", "bcast", "bcast", "missing", "missing_bcast", "missing_bcast", "single", "pyscalar"])
        if mode == "missing_bcast" and rank < 3:
            rank, full = 3, s[:3]

        def knock(shape):
            out = list(shape)
            idx = [i for i in range(len(out))]
            rng.shuffle(idx)
            for i in idx[: rng.randint(1, len(out))]:
                out[i] = 1
            return out

        a, b = list(full), list(full)
        if mode == "bcast":
            if rng.random() < 0.5:
                a = knock(a)
            else:
                b = knock(b)
            if rng.random() < 0.3 and len(full) > 1:
                # both broadcast on different dims
                a, b = list(full), list(full)
                i, j = rng.sample(range(len(full)), 2)
                a[i] = 1
                b[j] = 1
        elif mode == "missing":
            cut = rng.randint(1, len(full)) if len(full) > 1 else 1
            if rng.random() < 0.5:
                a = a[cut:] if len(a) > cut else [1]
            else:
                b = b[cut:] if len(b) > cut else [1]
        elif mode == "missing_bcast":
            # one operand has FEWER dims than the result and ALSO a size-1 dim that is expanded: (1, D) + (B, S, D), (S, 1) + (B, S, D)
            cut = rng.randint(1, len(full) - 2) if len(full) > 2 else 1
            small = list(full[cut:])
            idx = rng.randrange(len(small))
            small[idx] = 1
            if rng.random() < 0.5:
                a = small
            else:
                b = small
        elif mode == "single":
            if rng.random() < 0.5:
                a = [1] * rng.randint(0, 2)
            else:
                b = [1] * rng.randint(0, 2)
        cfg = {"a": a, "b": b, "mode": mode}
        if mode == "pyscalar":
            cfg["scalar"] = rng.choice([2, -3, 0.5, 1.25])
            cfg["scalar_side"] = rng.choice(["input", "other"])
        return cfg

    def build(self, cfg, gen, dtype):
        a = {"input": _randn(gen, cfg["a"], dtype), "other": _randn(gen, cfg["b"], dtype)}
        if cfg["mode"] == "pyscalar":
            a[cfg["scalar_side"]] = cfg["scalar"]
        return a

    def call_u(self, U, a, cfg, constraint):
        return U.add(a["input"], a["other"], **_ckw(constraint))

    def call_ref(self, a, cfg, grad_ref=False):
        return torch.add(a["input"], a["other"])


class Embedding(Op):
    name = "embedding"
    exact_one = True
    diff = ["weight"]

    def gen(self, rng):
        s = distinct(rng, 5, [3, 4, 5, 6, 7, 9, 11, 13])
        V, D = s[0] + rng.choice([0, 8, 20]), s[1]
        idx_shape = _lead(rng, s[2:]) or [s[2]]
        padding_idx = rng.choice([None, None, 0, V - 1, -1, rng.randrange(V)])
        max_norm = rng.choice([None, None, None, 0.5, 2.0, 100.0])
        if rng.random() < 0.25:
            # boundary: exactly as many indices as rows, so that the weight's backward scale is exactly 1
            a_, b_ = rng.choice([(2, 3), (3, 4), (2, 5), (1, 7), (3, 3)])
            V, idx_shape = a_ * b_, [a_, b_]
            padding_idx = rng.choice([None, 0, V - 1])
            max_norm = rng.choice([0.5, 0.5, 2.0, None])
        return {"V": V, "D": D, "idx_shape": idx_shape, "padding_idx": padding_idx, "max_norm": max_norm,
                "norm_type": rng.choice([2.0, 2.0, 1.0, 3.0]), "avoid_padding": rng.random() < 0.5}

    def build(self, cfg, gen, dtype):
        V = cfg["V"]
        idx = torch.randint(0, V, cfg["idx_shape"], generator=gen)
        pi = cfg["padding_idx"]
        if pi is not None and cfg.get("avoid_padding"):
            pin = pi % V
            idx = torch.where(idx == pin, (idx + 1) % V, idx)
        return {"input": idx, "weight": _randn(gen, [V, cfg["D"]], dtype)}

    def call_u(self, U, a, cfg, constraint):
        return U.embedding(a["input"], a["weight"], cfg["padding_idx"], cfg["max_norm"], cfg["norm_type"])

    def call_ref(self, a, cfg, grad_ref=False):
        return F.embedding(a["input"], a["weight"], cfg["padding_idx"], cfg["max_norm"], cfg["norm_type"])


class Sdpa(Op):
    name = "scaled_dot_product_attention"
    diff = ["query", "key", "value"]
    constrained = ["query", "key", "value"]

    def gen(self, rng):
        s = distinct(rng, 6, [2, 3, 4, 5, 6, 7, 8, 9, 11])
        lead = _lead(rng, s[3:])
        sq, sk, d = s[0], s[1], s[2]
        is_causal = rng.random() < 0.35
        mask = None
        if not is_causal:
            mask = rng.choice([None, None, "bool", "float", "bool_b", "float_b"])
        else:
            sk = sq
        dropout_p = rng.choice([0.0, 0.0, 0.0, 0.1, 0.3])
        r = rng.random()
        mult = 1.0 if r < 0.25 else loguniform(rng, 0.25, 16)
        return {"lead": lead, "sq": sq, "sk": sk, "d": d, "is_causal": is_causal, "mask": mask,
                "dropout_p": dropout_p, "mult": mult}

    def build(self, cfg, gen, dtype):
        lead = cfg["lead"]
        a = {"query": _randn(gen, lead + [cfg["sq"], cfg["d"]], dtype),
             "key": _randn(gen, lead + [cfg["sk"], cfg["d"]], dtype),
             "value": _randn(gen, lead + [cfg["sk"], cfg["d"]], dtype)}
        m = cfg["mask"]
        mask = None
        if m is not None:
            mshape = (lead if m.endswith("_b") else []) + [cfg["sq"], cfg["sk"]]
            if m.startswith("bool"):
                mask = torch.rand(mshape, generator=gen) < 0.7
                mask[..., 0] = True  # every query attends to something
            else:
                mask = _randn(gen, mshape, dtype)
        a["attn_mask"] = mask
        return a

    def call_u(self, U, a, cfg, constraint):
        return U.scaled_dot_product_attention(a["query"], a["key"], a["value"], attn_mask=a["attn_mask"],
                                              dropout_p=cfg["dropout_p"], is_causal=cfg["is_causal"], mult=cfg["mult"])

    def call_ref(self, a, cfg, grad_ref=False):
        return F.scaled_dot_product_attention(a["query"], a["key"], a["value"], attn_mask=a["attn_mask"],
                                              dropout_p=cfg["dropout_p"], is_causal=cfg["is_causal"],
                                              scale=cfg["mult"] / cfg["d"])

    @property
    def random_op(self):  # type: ignore[override]
        return True


class CrossEntropy(Op):
    name = "cross_entropy"
    exact_one = True
    diff = ["input"]

    def gen(self, rng):
        s = distinct(rng, 3, [2, 3, 4, 5, 6, 7, 9, 11, 13])
        one_d = rng.random() < 0.2
        B, V = (None, s[1]) if one_d else (s[0], s[1])
        ign_mode = rng.choice(["none", "none", "none", "some", "some", "custom", "all"])
        if one_d and ign_mode == "all":
            ign_mode = "none"
        r = rng.random()
        mult = 1.0 if r < 0.3 else loguniform(rng, 1 / 16, 4)
        cfg = {"B": B, "V": V, "reduction": rng.choice(["mean", "sum"]), "mult": mult, "ignore_mode": ign_mode,
               "ignore_index": -100 if ign_mode != "custom" else rng.choice([0, V - 1])}
        if rng.random() < 0.15:
            # class-PROBABILITY ("soft label") targets, the other target kind F.cross_entropy documents: same shape as the logits
            cfg.update(target_kind="prob", ignore_mode="none", ignore_index=-100)
        return cfg

    def build(self, cfg, gen, dtype):
        B, V = cfg["B"], cfg["V"]
        x = _randn(gen, ([B] if B is not None else []) + [V], dtype)
        t = torch.randint(0, V, ([B] if B is not None else []), generator=gen)
        if cfg.get("target_kind") == "prob":
            return {"input": x, "target": torch.softmax(_randn(gen, list(x.shape), torch.float64), -1).to(dtype)}
        im, ii = cfg["ignore_mode"], cfg["ignore_index"]
        if B is not None:
            if im in ("some", "custom"):
                # a draw-dependent number of ignored targets (1 .. B-1)
                k = int(torch.randint(1, max(B, 2), (1,), generator=gen))
                perm = torch.randperm(B, generator=gen)[:k]
                if im == "custom":
                    t = torch.where(t == ii, (t + 1) % V, t)
                t[perm] = ii
            elif im == "all":
                t[:] = ii
        return {"input": x, "target": t}

    def call_u(self, U, a, cfg, constraint):
        return U.cross_entropy(a["input"], a["target"], ignore_index=cfg["ignore_index"], reduction=cfg["reduction"],
                               mult=cfg["mult"])

    def call_ref(self, a, cfg, grad_ref=False):
        red = "sum" if grad_ref else cfg["reduction"]
        return F.cross_entropy(a["input"] * cfg["mult"], a["target"], ignore_index=cfg["ignore_index"], reduction=red)


class MseLoss(Op):
    name = "mse_loss"
    exact_one = True
    diff = ["input", "target"]

    def gen(self, rng):
        s = distinct(rng, 4)
        return {"shape": _lead(rng, s) + [s[3]], "reduction": rng.choice(["mean", "sum"])}

    def build(self, cfg, gen, dtype):
        return {"input": _randn(gen, cfg["shape"], dtype), "target": _randn(gen, cfg["shape"], dtype)}

    def call_u(self, U, a, cfg, constraint):
        return U.mse_loss(a["input"], a["target"], reduction=cfg["reduction"])

    def call_ref(self, a, cfg, grad_ref=False):
        red = "sum" if grad_ref else cfg["reduction"]
        return F.mse_loss(a["input"], a["target"], reduction=red)


OPS: Dict[str, Op] = {
    o.name: o
    for o in [Gelu(), Silu(), SiluGlu(), Softmax(), Dropout(), Matmul(), Linear(), LinearReadout(), Conv1d(),
              LayerNorm(), RmsNorm(), Add(), Embedding(), Sdpa(), CrossEntropy(), MseLoss()]
}


class FitResult:
    def __init__(self) -> None:
        self.s_out: Optional[float] = None
        self.res_out: float = 0.0
        self.b: Dict[str, Optional[float]] = {}
        self.res_b: Dict[str, float] = {}
        self.shape_ok = True
        self.dtype_ok = True
        self.y = None
        self.grads_u: Dict[str, Optional[torch.Tensor]] = {}
        self.grads_r: Dict[str, Optional[torch.Tensor]] = {}
        self.ref_nonfinite = False
        self.u_nonfinite = False
        self.scale_trace: List[Tuple[float, float]] = []
        self.scale_problems: List[str] = []
        self.mutated: List[str] = []
        self.upstream_mutated = False
        self.upstream_max = 0.0
        self.input_max = 1.0
        self.out_u = None
        self.out_r = None
        self.u_exc: Optional[BaseException] = None
        self.ref_exc: Optional[BaseException] = None
        self.inputs_u: Dict[str, Any] = {}


def _magnified(base: Dict[str, Any], cfg: Dict[str, Any], data_seed: int) -> Dict[str, Any]:
    """'all finite tensor values': when the configuration carries a list of magnitudes, each DRAW multiplies its activation
    inputs by one of them (chosen by the draw's seed) - a data-independent scalar must not notice, and low-precision
    intermediates (a float16 square, a sum) must not overflow / underflow where PyTorch's own op does not."""
    mags = cfg.get("_mags")
    if not mags:
        return base
    m = mags[data_seed % len(mags)]
    if m == 1:
        return base
    out = dict(base)
    for k in ("input", "other", "gate", "target"):
        v = out.get(k)
        if isinstance(v, torch.Tensor) and v.is_floating_point():
            out[k] = (v.double() * m).to(v.dtype)
    return out


def relayout(t: torch.Tensor, layout: str) -> torch.Tensor:
    """Same values, same shape, other strides (what slicing / transposing hands to a function)."""
    if layout == "contiguous" or t.dim() == 0:
        return t
    if t.dim() >= 2:
        r = t.transpose(-1, -2).contiguous().transpose(-1, -2)  # column-major in the last two dims
        if r.is_contiguous():  # a size-1 dim: fall through to the strided form
            buf = torch.zeros(t.shape[:-1] + (2 * t.shape[-1],), dtype=t.dtype)
            buf[..., ::2] = t
            r = buf[..., ::2]
        return r
    buf = torch.zeros(2 * t.shape[0], dtype=t.dtype)
    buf[::2] = t
    return buf[::2]


def run_fit(op: Op, U, cfg: Dict[str, Any], constraint: Any, dtype: torch.dtype, data_seed: int, up_seed: int,
            want_grads: bool = True) -> FitResult:
    """One execution of the unit-scaled function and of its reference on bit-identical
    inputs, with the scale spy and mutation sanitizer on; returns fitted scalars."""
    from .instruments import ScaleSpy, Snapshot, fit_scalar

    gen = torch.Generator().manual_seed(data_seed)
    base = _magnified(op.build(cfg, gen, dtype), cfg, data_seed)
    fr = FitResult()

    layout, frozen = cfg.get("_layout", "contiguous"), cfg.get("_frozen")

    def leafify(d):
        out = {}
        for k, v in d.items():
            if isinstance(v, torch.Tensor) and v.is_floating_point():
                # (conv1d weights stay contiguous: plain F.conv1d on a single thread SEGFAULTS for some geometries - L = 1 with
                # padding - when the weight has transposed strides; reproduced without any library code, see DESIGN 8.3)
                relay = layout in ("noncontig", "all-noncontig") and not (op.name == "conv1d" and k == "weight")
                t = relayout(v.detach().clone(), layout) if relay else v.detach().clone()
                out[k] = t.requires_grad_(True) if (k in op.diff and k != frozen) else t
            elif isinstance(v, torch.Tensor):
                out[k] = v.detach().clone()
            else:
                out[k] = v
        return out

    au, ar = leafify(base), leafify(base)
    ar_g = leafify(base)
    snap = Snapshot({k: v for k, v in au.items()})
    rng_seed = data_seed % (2**31)
    torch.manual_seed(rng_seed)
    fr.inputs_u = au
    if cfg.get("_positional"):
        from .api_orders import FUNCTIONS
        from .instruments import PositionalProxy
        U = PositionalProxy(U, FUNCTIONS)  # every argument up to the last given one passed by position, in the documented order
    with ScaleSpy() as spy:
        try:
            yu = op.call_u(U, au, cfg, constraint)
        except Exception as e:  # judged by the caller (rejection vs defect)
            fr.u_exc = e
        torch.manual_seed(rng_seed)
        try:
            yr = op.call_ref(ar, cfg)
        except Exception as e:
            fr.ref_exc = e
        if fr.u_exc is not None or fr.ref_exc is not None:
            fr.scale_trace = spy.factors()
            return fr
        fr.out_u, fr.out_r = yu, yr
        fr.shape_ok = tuple(yu.shape) == tuple(yr.shape)
        fr.dtype_ok = yu.dtype == yr.dtype
        fr.ref_nonfinite = not bool(torch.isfinite(yr).all())
        fr.u_nonfinite = not bool(torch.isfinite(yu).all())
        if fr.shape_ok and not fr.ref_nonfinite:
            fr.s_out, fr.res_out, _ = fit_scalar(yu, yr)
        if want_grads and fr.shape_ok and not fr.ref_nonfinite and yu.requires_grad:
            g = torch.randn(yu.shape, generator=torch.Generator().manual_seed(up_seed), dtype=torch.float64).to(yu.dtype)
            if layout == "up-expanded" and g.dim() >= 1:
                # what `y.sum(-1)...backward()` hands to the op: one value per row, expanded with stride 0
                g = g[..., :1].expand(g.shape)
            elif layout in ("up-noncontig", "all-noncontig"):
                g = relayout(g, "noncontig")
            g_before = g.clone()
            fr.upstream_max = float(g.abs().max()) if g.numel() else 0.0
            fr.input_max = max([float(t.detach().abs().max()) for t in au.values() if isinstance(t, torch.Tensor) and t.is_floating_point() and t.numel()] + [1.0])
            yu.backward(g)
            fr.upstream_mutated = not bool(torch.equal(torch.nan_to_num(g), torch.nan_to_num(g_before)))
            torch.manual_seed(rng_seed)
            yg = op.call_ref(ar_g, cfg, grad_ref=True)
            if yg.requires_grad:
                yg.backward(g_before.to(yg.dtype))
            for k in op.diff:
                tu, tr = au.get(k), ar_g.get(k)
                if not isinstance(tu, torch.Tensor) or not tu.is_floating_point():
                    continue
                gu = tu.grad
                gr = tr.grad if tr.grad is not None else torch.zeros_like(tr)
                gu = gu if gu is not None else torch.zeros_like(tu)
                fr.grads_u[k], fr.grads_r[k] = gu, gr
                if not bool(torch.isfinite(gr).all()):
                    fr.ref_nonfinite = True
                    continue
                fr.b[k], fr.res_b[k], _ = fit_scalar(gu, gr)
    fr.scale_trace = spy.factors()
    fr.scale_problems = spy.problems()
    fr.mutated = snap.changed()
    return fr


def reference_noise(op: Op, cfg: Dict[str, Any], dtype: torch.dtype, data_seed: int, up_seed: int) -> Dict[str, float]:
    """How far PyTorch's OWN low-precision result is from the same op evaluated in float64 on the very same (already rounded)
    inputs: relative to max|.|, for the output ('__out__') and for the gradient of every differentiable input.  Used as a
    noise floor: a low-precision deviation of the library is only judged if it exceeds a small multiple of what the reference op
    itself suffers on these inputs (cancellation in tiny normalised dims, few-element tensors ...)."""
    gen = torch.Generator().manual_seed(data_seed)
    base = _magnified(op.build(cfg, gen, dtype), cfg, data_seed)

    def leaf(d, to):
        out = {}
        for k, v in d.items():
            if isinstance(v, torch.Tensor) and v.is_floating_point():
                t = v.detach().to(to).clone()
                out[k] = t.requires_grad_(True) if k in op.diff else t
            elif isinstance(v, torch.Tensor):
                out[k] = v.clone()
            else:
                out[k] = v
        return out

    lo, hi = leaf(base, dtype), leaf(base, torch.float64)
    rng_seed = data_seed % (2**31)
    torch.manual_seed(rng_seed)
    yl = op.call_ref(lo, cfg, grad_ref=True)
    torch.manual_seed(rng_seed)
    yh = op.call_ref(hi, cfg, grad_ref=True)
    out: Dict[str, float] = {}

    def rel(a, b):
        sc = max(float(b.abs().max()), 1e-300) if b.numel() else 1.0
        return float((a.double() - b).abs().max()) / sc if b.numel() else 0.0
    out["__out__"] = rel(yl.detach(), yh.detach())
    if yl.requires_grad:
        g = torch.randn(yl.shape, generator=torch.Generator().manual_seed(up_seed), dtype=torch.float64)
        yl.backward(g.to(yl.dtype))
        yh.backward(g.to(yl.dtype).double())
        for k in op.diff:
            tl, th = lo.get(k), hi.get(k)
            if isinstance(tl, torch.Tensor) and tl.grad is not None and th.grad is not None:
                out[k] = rel(tl.grad, th.grad)
    return out
