"""Parent process: generate cases, shard over worker subprocesses, aggregate, judge.

Verdicts are three-valued:
  held          exit 0
  violated      exit 1, one "VIOLATION property=<id> replay=<path>" per distinct mechanism key
  inconclusive  exit 2, "INCONCLUSIVE property=<id> reason=..."
"""

from __future__ import annotations

import argparse
import hashlib
import importlib
import json
import os
import shutil
import subprocess
import sys
import time
from typing import Any, Dict, List

from . import findings
from .common import VERIF_HOME


def _git(repo: str, *args: str) -> str:
    try:
        return subprocess.run(
            ["git", "-C", repo, *args], capture_output=True, text=True, timeout=60
        ).stdout
    except Exception:
        return ""


def repo_state(repo: str) -> Dict[str, str]:
    head = _git(repo, "rev-parse", "HEAD").strip()
    diff = _git(repo, "diff", "HEAD", "--", "unit_scaling")
    return {
        "head": head,
        "worktree_diff_sha": hashlib.sha256(diff.encode()).hexdigest()[:16] if diff else "clean",
    }


def parse(argv: List[str]) -> argparse.Namespace:
    ap = argparse.ArgumentParser(prog="check")
    ap.add_argument("property")
    ap.add_argument("--tier", default=os.environ.get("VERIF_TIER", "quick"), choices=["quick", "thorough"])
    ap.add_argument("--seed", type=int, default=int(os.environ.get("VERIF_SEED", "0") or 0))
    ap.add_argument("--replay", default=None)
    ap.add_argument("--repo", default=os.environ.get("VMON_REPO", "/repo"))
    ap.add_argument("--jobs", type=int, default=int(os.environ.get("VMON_JOBS", "16")))
    ap.add_argument("--limit", type=int, default=0, help="debug: only first N cases")
    ap.add_argument("--no-evidence", action="store_true", help="do not write evidence (self-test on scratch copies)")
    return ap.parse_args(argv)


def env_for(repo: str) -> Dict[str, str]:
    env = dict(os.environ)
    env["PYTHONPATH"] = os.pathsep.join([os.path.realpath(repo), VERIF_HOME])
    env.setdefault("PYTHONHASHSEED", "0")
    env["OMP_NUM_THREADS"] = "1"
    env["MKL_NUM_THREADS"] = "1"
    env["VERIF_HOME"] = VERIF_HOME
    env["TOKENIZERS_PARALLELISM"] = "false"
    return env


def replay(args: argparse.Namespace, mod) -> int:
    with open(args.replay) as f:
        rep = json.load(f)
    case = rep["case"]
    sys.path.insert(0, os.path.realpath(args.repo))
    from .worker import boot
    from .common import CaseCtx

    boot(args.repo)
    state: Dict[str, Any] = {}
    if hasattr(mod, "setup"):
        mod.setup(state)
    ctx = CaseCtx(case)
    ctx.state = state
    mod.run_case(case, ctx)
    print(json.dumps(ctx.to_json(), indent=1)[:6000])
    if ctx.violations:
        for v in ctx.violations:
            print(f"REPRODUCED property={mod.PROPERTY} key={v['key']} :: {v['msg'][:300]}")
        print(f"VIOLATION property={mod.PROPERTY} replay={args.replay}")
        return 1
    print("replay: no violation observed")
    return 0


def main(argv: List[str]) -> int:
    args = parse(argv)
    pid = args.property.upper()
    mod = importlib.import_module(f"vmon.props.{pid.lower()}")
    if args.replay:
        return replay(args, mod)
    t0 = time.time()
    repo = os.path.realpath(args.repo)
    cases = mod.gen_cases(args.tier, args.seed)
    for i, c in enumerate(cases):
        c.setdefault("id", i)
    if args.limit:
        cases = cases[: args.limit]
    n_jobs = max(1, min(args.jobs, len(cases), getattr(mod, "MAX_JOBS", 16)))
    scratch = os.path.join(VERIF_HOME, ".scratch", f"{pid}-{args.tier}-{os.getpid()}")
    os.makedirs(scratch, exist_ok=True)
    # Interleave so every worker gets a mix of cheap and expensive cases.
    shards: List[List[Dict[str, Any]]] = [cases[i::n_jobs] for i in range(n_jobs)]
    procs = []
    env = env_for(repo)
    env["VERIF_SEED"] = str(args.seed)
    env["VERIF_TIER"] = args.tier
    env["VMON_SCRATCH"] = scratch
    for i, shard in enumerate(shards):
        cf = os.path.join(scratch, f"cases_{i}.json")
        of = os.path.join(scratch, f"out_{i}.jsonl")
        with open(cf, "w") as f:
            json.dump(shard, f)
        log = open(os.path.join(scratch, f"log_{i}.txt"), "w")
        p = subprocess.Popen(
            [sys.executable, "-m", "vmon.worker", pid, cf, of, repo],
            env=env, cwd=VERIF_HOME, stdout=log, stderr=subprocess.STDOUT,
        )
        procs.append((p, of, log, len(shard)))
    watchdog = getattr(mod, "WATCHDOG", {"quick": 1800, "thorough": 6 * 3600})[args.tier]
    deadline = time.time() + watchdog
    timed_out = False
    for p, _, log, _ in procs:
        try:
            p.wait(timeout=max(1.0, deadline - time.time()))
        except subprocess.TimeoutExpired:
            timed_out = True
            p.kill()
        log.close()

    # ---------------- aggregate -------------------------------------------
    case_by_id = {c["id"]: c for c in cases}
    results: List[Dict[str, Any]] = []
    reach: Dict[str, Dict[str, List[set]]] = {}
    reach_on = False
    crashed: List[str] = []
    for i, (p, of, _, n) in enumerate(procs):
        got = 0
        trailer = False
        if os.path.exists(of):
            with open(of) as f:
                for line in f:
                    try:
                        rec = json.loads(line)
                    except Exception:
                        continue
                    if "boot_s" in rec:
                        continue
                    if rec.get("trailer"):
                        trailer = True
                        if rec.get("reach_on"):
                            reach_on = True
                        for fn, funcs in (rec.get("reach") or {}).items():
                            for qn, (hit, tot) in funcs.items():
                                slot = reach.setdefault(fn, {}).setdefault(qn, [set(), set()])
                                slot[0].update(hit)
                                slot[1].update(tot)
                        if rec["viol"] or rec["mon"] or rec["notes"]:
                            results.append(rec)
                        continue
                    got += 1
                    results.append(rec)
        if p.returncode != 0 or not trailer or got != n:
            tail = ""
            try:
                with open(os.path.join(scratch, f"log_{i}.txt")) as f:
                    tail = f.read()[-1500:]
            except Exception:
                pass
            crashed.append(f"worker {i}: rc={p.returncode} cases={got}/{n} trailer={trailer}\n{tail}")

    counters: Dict[str, int] = {}
    sigs = set()
    skipped: Dict[str, int] = {}
    viol_by_key: Dict[str, List[Dict[str, Any]]] = {}
    harness_notes: List[str] = []
    extra_samples: List[Any] = []
    stats: Dict[str, List[float]] = {}
    for r in results:
        for smp in r.get("samples", []):
            if len(extra_samples) < 4:
                extra_samples.append(smp)
        for k, (lo, hi, n) in r.get("stats", {}).items():
            cur = stats.get(k)
            if cur is None:
                stats[k] = [lo, hi, n]
            else:
                cur[0], cur[1], cur[2] = min(cur[0], lo), max(cur[1], hi), cur[2] + n
        for k, v in r["mon"].items():
            counters[k] = counters.get(k, 0) + v
        sigs.update(r["sigs"])
        if r.get("skip"):
            skipped[r["skip"]] = skipped.get(r["skip"], 0) + 1
        for v in r["viol"]:
            viol_by_key.setdefault(v["key"], []).append({"case": case_by_id.get(r["id"], {"id": r["id"]}), **v})
        if r["mon"].get("harness_error"):
            harness_notes.extend(r["notes"])

    known = findings.open_keys(pid)
    lines: List[str] = []
    n_viol = 0
    known_hit: Dict[str, int] = {}
    replay_dir = os.path.join(VERIF_HOME, "replays", pid)
    for key, items in sorted(viol_by_key.items()):
        if key in known:
            known_hit[key] = len(items)
            lines.append(f"KNOWN-FINDING: property={pid} {known[key]['what']} [key={key}; {len(items)} witnesses this run]")
            continue
        n_viol += 1
        os.makedirs(replay_dir, exist_ok=True)
        safe = "".join(ch if ch.isalnum() or ch in "-_." else "_" for ch in key)[:100]
        path = os.path.join(replay_dir, f"{safe}.json")
        with open(path, "w") as f:
            json.dump({"property": pid, "key": key, "tier": args.tier, "seed": args.seed,
                       "case": items[0]["case"], "msg": items[0]["msg"], "detail": items[0]["detail"],
                       "witnesses_this_run": len(items), "repo": repo_state(repo)}, f, indent=1)
        lines.append(f"VIOLATION property={pid} replay={os.path.relpath(path, VERIF_HOME)}")
        lines.append(f"  key={key} witnesses={len(items)} :: {items[0]['msg'][:400]}")

    # ---------------- inconclusive conditions -------------------------------
    inconclusive: List[str] = []
    if timed_out:
        inconclusive.append("watchdog")
    if crashed:
        inconclusive.append("worker-crash")
    if counters.get("harness_error"):
        inconclusive.append(f"harness-error x{counters['harness_error']}")
    for m in getattr(mod, "REQUIRED_MONITORS", []):
        if counters.get(m, 0) <= 0:
            inconclusive.append(f"monitor-never-fired:{m}")
    min_nt = getattr(mod, "MIN_NONTRIVIAL", {"quick": 2, "thorough": 2})[args.tier]
    if args.limit == 0 and len(sigs) < min_nt:
        inconclusive.append(f"too-few-nontrivial-cases:{len(sigs)}<{min_nt}")
    reach_summary: Dict[str, Any] = {}
    req = getattr(mod, "REQUIRED_REACH", {})
    if reach_on:
        for fn, funcs in req.items():
            for qn in funcs:
                hit, tot = reach.get(fn, {}).get(qn, [set(), set()])
                reach_summary[f"{fn}:{qn}"] = f"{len(hit)}/{len(tot)} lines"
                if not hit and args.limit == 0:
                    inconclusive.append(f"anchor-never-reached:{fn}:{qn}")
        for fn, pairs in getattr(mod, "REQUIRED_LINES_MATCHING", {}).items():
            pass
    elif req and getattr(mod, "REACH", True):
        inconclusive.append("reach-probe-unavailable")

    wall = time.time() - t0
    n_eval = counters.get("evaluations", 0) or len([r for r in results if not r.get("trailer")])
    evidence = {
        "property_id": pid,
        "tier": args.tier,
        "seed": args.seed,
        "level": getattr(mod, "LEVEL", "exploration"),
        "coverage": {
            "evaluations": int(n_eval),
            "distinct_nontrivial": len(sigs),
            "rule": getattr(mod, "RULE", ""),
            "samples": _samples(mod, cases, results) + extra_samples,
            "observed_extremes": {k: {"min": v[0], "max": v[1], "n": int(v[2])} for k, v in sorted(stats.items())},
            "exhaustive": bool(getattr(mod, "EXHAUSTIVE", {}).get(args.tier, False)),
            "exhaustive_subspace": getattr(mod, "EXHAUSTIVE_NOTE", {}).get(args.tier, ""),
            "cases": len(cases),
            "monitors": dict(sorted(counters.items())),
            "reach": reach_summary,
            "skipped": skipped,
            "known_findings_hit": known_hit,
            "violation_keys": sorted(k for k in viol_by_key if k not in known),
            "workers": n_jobs,
            "repo": repo_state(repo),
            "verdict": "violated" if n_viol else ("inconclusive" if inconclusive else "held"),
            "inconclusive_reasons": inconclusive,
        },
        "assumptions": getattr(mod, "ASSUMPTIONS", []),
        "wall_s": round(wall, 2),
        "violations": n_viol,
    }
    if not args.no_evidence:
        os.makedirs(os.path.join(VERIF_HOME, "evidence"), exist_ok=True)
        with open(os.path.join(VERIF_HOME, "evidence", f"{pid}.json"), "w") as f:
            json.dump(evidence, f, indent=1, sort_keys=True)

    print(f"[{pid}] tier={args.tier} seed={args.seed} cases={len(cases)} evaluations={n_eval} "
          f"distinct_nontrivial={len(sigs)} workers={n_jobs} wall={wall:.1f}s")
    mon_txt = ", ".join(f"{k}={v}" for k, v in sorted(counters.items()))
    print(f"[{pid}] monitors: {mon_txt}")
    if reach_summary:
        print(f"[{pid}] reach: " + "; ".join(f"{k} {v}" for k, v in sorted(reach_summary.items())))
    if stats:
        print(f"[{pid}] observed extremes: " + "; ".join(f"{k} [{v[0]:.4g}, {v[1]:.4g}] n={int(v[2])}" for k, v in sorted(stats.items())))
    if skipped:
        print(f"[{pid}] skipped (not judged): {skipped}")
    for ln in lines:
        print(ln)
    for c in crashed:
        print(f"[{pid}] WORKER PROBLEM: {c}")
    for n in harness_notes[:5]:
        print(f"[{pid}] {n}")
    keep = os.environ.get("VMON_KEEP_SCRATCH") == "1" or crashed
    if not keep:
        shutil.rmtree(scratch, ignore_errors=True)
    if n_viol:
        return 1
    if inconclusive:
        print(f"INCONCLUSIVE property={pid} reason={';'.join(inconclusive)}")
        return 2
    print(f"[{pid}] HELD on everything observed")
    return 0


def _samples(mod, cases, results) -> List[Any]:
    out = []
    step = max(1, len(cases) // 5)
    for c in cases[::step][:5]:
        out.append(c)
    return out


if __name__ == "__main__":
    sys.exit(main(sys.argv[1:]))
