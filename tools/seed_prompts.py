#!/venv/bin/python
"""Write the task description for one more round of independently seeded changes.

usage: tools/seed_prompts.py <round-no> [Cxx ...]     -> /tmp/seed<round>_prompt_<Cxx>.txt and a git worktree /tmp/seed<round>_<Cxx>

Each sub-agent gets ONLY: the property text (from properties.jsonl), its own scratch worktree of /repo, and one-paragraph
descriptions of the earlier submissions for the same property (so that the new one is different). Nothing from /verif's machinery.
"""
import json
import os
import subprocess
import sys

VERIF = os.path.dirname(os.path.dirname(os.path.abspath(__file__)))
rnd = sys.argv[1]
props = {}
for line in open(os.path.join(VERIF, "properties.jsonl")):
    d = json.loads(line)
    props[d["id"]] = d
ids = sys.argv[2:] or sorted(props)
T = open(os.path.join(VERIF, "tools", "seed_prompt_template.txt")).read()
for pid in ids:
    d = props[pid]
    wt = f"/tmp/seed{rnd}_{pid}"
    text = f"PROPERTY {pid}: {d.get('title', '')}\n\nSTATEMENT: {d.get('statement', '')}\n\nQUANTIFIED OVER: {(d.get('quantifier') or {}).get('text', '')}\n"
    prev = []
    for sd in sorted(os.listdir(os.path.join(VERIF, "seeded"))):
        mp = os.path.join(VERIF, "seeded", sd, "meta.json")
        if sd.endswith("-" + pid) and os.path.exists(mp):
            m = json.load(open(mp))
            prev.append((m.get("summary", "")[:700], m.get("needs_to_manifest", "")[:350]))
    ptxt = ""
    for i, (s, n) in enumerate(prev, 1):
        ptxt += f"  previous submission {i}: {s}\n    its trigger: {n}\n"
    out = T.replace("@WT@", wt).replace("@PROP@", text).replace("@PID@", pid).replace("@NPREV@", str(len(prev))).replace("@PREV@", ptxt)
    open(f"/tmp/seed{rnd}_prompt_{pid}.txt", "w").write(out)
    if not os.path.isdir(wt):
        subprocess.run(["git", "-C", "/repo", "worktree", "add", "--detach", wt, "HEAD"], check=True, capture_output=True)
    print(pid, wt, len(prev), "previous")
