#!/usr/bin/env bash
# usage: tools/seed_round.sh <worktree-prefix> <keep-prefix> "C01:C01,C02" "C03:C03" ...   (evaluates each <prefix>_<id>/SEED sequentially)
cd "$(dirname "$0")/.."
pre=$1; keep=$2; shift 2
for spec in "$@"; do
  id=${spec%%:*}; props=${spec##*:}
  if [ -f ${pre}_$id/SEED/patch.diff ]; then
    tools/seed_eval.py ${pre}_$id/SEED --props $props --tests --jobs 12 > .scratch/${keep}_eval_$id.json 2>&1
    /venv/bin/python - ".scratch/${keep}_eval_$id.json" "$id" <<'PY'
import json,sys
t=open(sys.argv[1]).read()
try:
    d=json.loads(t[t.find('{'):])
    ok=(d.get('demo_fails_with_change'),d.get('demo_passes_without_change'),d.get('tests_pass'))
    print(sys.argv[2],'confirm',ok,' '.join(f"{p}:{'FIRED' if r['fired'] else 'silent'}" for p,r in d.get('checks',{}).items()))
except Exception as e:
    print(sys.argv[2],'UNPARSED',t[-200:].replace('\n',' '))
PY
  else
    echo "$id no patch"
  fi
done
