#!/venv/bin/python
"""usage: tools/seed_store.py <worktree-prefix> <keep-prefix> <eval-prefix>[,<re-eval-prefix>] <history.json|-> id [id ...]
Copies <worktree-prefix>_<id>/SEED/{patch.diff,demo.py,meta.json} to seeded/<keep-prefix>-<id>/ with the confirmation results from
.scratch/<eval-prefix>_eval_<id>.json (and the re-evaluation, if any), then regenerates the table in seeded/README.md."""
import glob, json, os, shutil, sys

V = os.path.dirname(os.path.dirname(os.path.abspath(__file__)))
pre, keep, evals, hist = sys.argv[1:5]
ids = sys.argv[5:]
H = json.load(open(hist)) if hist != "-" else {}
ev = evals.split(",")


def load(f):
    t = open(f).read()
    d = json.loads(t[t.find("{"):])
    d.pop("dir", None)
    return d


for pid in ids:
    src, out = f"{pre}_{pid}/SEED", f"{V}/seeded/{keep}-{pid}"
    os.makedirs(out, exist_ok=True)
    for fn in ("patch.diff", "demo.py"):
        shutil.copy(f"{src}/{fn}", out)
    try:
        meta = json.load(open(f"{src}/meta.json"))
    except Exception:
        meta = {}
    f1 = f"{V}/.scratch/{ev[0]}_eval_{pid}.json"
    if os.path.exists(f1):
        meta["confirmed_by_framework_author"] = load(f1)
    if len(ev) > 1 and os.path.exists(f"{V}/.scratch/{ev[1]}_eval_{pid}.json"):
        d2 = load(f"{V}/.scratch/{ev[1]}_eval_{pid}.json")
        if "confirmed_by_framework_author" in meta:
            meta["re_evaluation_after_strengthening"] = d2.get("checks")
        else:
            meta["confirmed_by_framework_author"] = d2
    if pid in H:
        meta["framework_history"] = H[pid]
    json.dump(meta, open(f"{out}/meta.json", "w"), indent=1)
rows = []
for d in sorted(glob.glob(f"{V}/seeded/agent*-C*")):
    m = json.load(open(d + "/meta.json"))
    first = m.get("confirmed_by_framework_author", {}).get("checks", {})
    c = m.get("re_evaluation_after_strengthening") or {}
    fired = sorted({p for p, r in list(c.items()) + list(first.items()) if r.get("fired")})
    silent = [p for p, r in first.items() if not r.get("fired") and p not in fired]
    rows.append((os.path.basename(d), str(m.get("summary") or "")[:160].replace("\n", " ").replace("|", "/"),
                 str(m.get("needs_to_manifest") or "")[:160].replace("\n", " ").replace("|", "/"), fired, silent, "framework_history" in m))
t = open(f"{V}/seeded/README.md").read()
head = t[: t.index("| id | change")]
with open(f"{V}/seeded/README.md", "w") as f:
    f.write(head + "| id | change | needs to manifest | caught by (quick tier, current framework) | ran and stayed silent | first missed -> framework strengthened |\n|---|---|---|---|---|---|\n")
    for r in rows:
        f.write(f"| {r[0]} | {r[1]} | {r[2]} | {', '.join(r[3]) or '-'} | {', '.join(r[4]) or '-'} | {'YES (see meta.json)' if r[5] else 'no'} |\n")
print(len(rows), "seeds;", sum(r[5] for r in rows), "with framework history")
