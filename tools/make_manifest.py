#!/venv/bin/python
"""Regenerates /verif/MANIFEST.json from the per-property table below (kept valid at all times)."""

import json
import os
import subprocess

HERE = os.path.dirname(os.path.dirname(os.path.abspath(__file__)))

CHECKS = {
    "C01": ("differential runtime monitor: scalar-fit of every call against a hand-written PyTorch reference on two data draws + scale-primitive spy + input version/bit sanitizer + honoured-or-rejected argument probes",
            "4/C01", "Held on the executions generated (seeded configurations of the 16 functions x dtypes x constraints); not a proof for all inputs.",
            "PyTorch reference ops; float64 noise < 1e-10; hand-written reference table"),
    "C02": ("differential runtime monitor on gradients (per-input scalar fit against reference autograd, 3 draw pairs, repetition) + exact checks of the two scaling primitives",
            "4/C02", "Held on generated configurations and 2k/50k primitive cases; exploration only.",
            "PyTorch autograd of the reference op"),
    "C05": ("icontract postconditions on the real rule functions (fire on in-library calls too) with exact rational/decimal recomputation; unknown-name probes; fitted-scalar collapse check; torch.autograd.gradcheck",
            "4/C05", "Held on generated scales/configurations; every non-rule attribute of the constraints module is enumerated.",
            "fractions/decimal; gradcheck finite differences"),
    "C06": ("runtime monitor: closed form in float64 + tensor hooks on branch output + primitive spy + bit comparison of residual_apply + gradcheck",
            "4/C06", "Held on generated stacks (1-8 layers, nested/sequential).", "PyTorch autograd of the closed form"),
    "C07": ("recorded rule calls checked against exact rational closed form and 60-digit decimal contribution identities; spy rule passed to the real stack classes",
            "4/C07", "Thorough tier enumerates all depths 1..256 x 17x17 grid (exhaustive over the stated grid).", "fractions/decimal"),
    "C10": ("differential monitor of every group lr against a rule table typed from the statement + icontract postconditions on the lr rule functions (in situ)",
            "4/C10", "Held on generated parameter lists x 3 optimizers x readout settings.", "torch.optim constructors"),
    "C11": ("icontract snapshot/postcondition on scaled_parameters (structure, identity, non-mutation via tensor version counters, storage aliasing) + real optimizer steps with zero gradients",
            "4/C11", "Held on generated group lists; exploration.", "torch.optim SGD/AdamW semantics"),
    "C12": ("before/after observation of layer outputs around one real optimizer step", "4/C12",
            "Held on generated layers (fan_in/fan_out up to 4096).", "torch.optim.Adam first-step semantics with eps=0"),
}

CHECKS.update({
    "C03": ("fitted scale factors (as C01/C02) multiplied by term counts MEASURED on the PyTorch reference op with all-ones / one-hot operands; Monte-Carlo for dropout",
            "4/C03", "Held on generated shapes; counts are measured, never assumed.", "variance of a sum of N independent unit-variance terms is N"),
    "C04": ("numerical integration (240001-point quadrature / Gauss-Hermite product) and fixed-seed Monte-Carlo (>= 2^20 elements) of the real functions' outputs and autograd derivatives against the statement's bands",
            "4/C04", "Held on a 161-point mult grid and log-uniform/corner hyper-parameters.", "quadrature error < 1e-6, sampling error < 0.5%"),
    "C08": ("3-way differential monitor (module / harness functional form / torch.nn twin with the same parameters) + construction-time rejection probes + init statistics + tag table",
            "4/C08", "Held on generated option assignments of 15 module classes + depth containers.", "torch.nn twins define option semantics; 6-sigma init bounds"),
    "C09": ("history monitor with executable shadow model, checked after every step; icontract postconditions on the copy/unpickle hooks",
            "4/C09", "Thorough tier enumerates ALL histories of length <= 4 over a 13-letter alphabet x 4 tags x 3 depths.", "shadow model of documented step semantics"),
    "C13": ("differential monitor against an independent exact format oracle (Fraction table + float64 neighbour arithmetic), with idempotence/monotonicity/symmetry/sanitizer checks",
            "4/C13", "Thorough tier covers every float32 bit pattern for E4M3 and E5M2 (exhaustive) and all 168 formats on structured inputs.", "float64 exactness on float32 values"),
    "C14": ("random source substituted by an enumerator of all 2^srbits draws: probabilities are counted exactly; spy on the real generator for independence",
            "4/C14", "All draws enumerated for every judged (input, format, srbits); inputs sampled.", "torch.randint is the only random source"),
    "C16": ("differential monitor on generated programs: real unit_scale() (TorchDynamo) vs an independent DSL interpreter applying the User-Guide recipe (networkx residual analysis); re-initialisation and non-destructiveness checks; mechanism attribution by alternative recipes",
            "4/C16", "Held on generated programs (1-16 ops, 0-4 residual blocks); programs that Dynamo splits are excluded and counted.", "unit_scaling.functional as established by C01-C06"),
    "C15": ("differential monitor on generated programs: real simulate_format/simulate_fp8 (TorchDynamo) and the backend on hand-built FX graphs vs an independent DSL interpreter with hand-written straight-through quantisers; FPFormat.quantise call log; pinned random source; lossless pair bit-identity",
            "4/C15", "Held on generated programs and format pairs (one open known finding: root module that is itself a torch.nn layer).", "FPFormat.quantise as established by C13/C14"),
    "C17": ("history monitor over transform chains: bit snapshots + storage-pointer sets of original and intermediates, per-call outputs/gradients, captured backend-run log records, FPFormat.quantise call counters, swapped-order runs, recipe-then-quantised reference interpreter",
            "4/C17", "All chains of the stated family on generated small modules; compile-terminated chains only in the thorough tier.", "pinned random source; C01-C06/C13-C16 for the reference"),
    "C18": ("differential monitor: tracked vs untracked module (bit comparison); recorded Metrics vs numpy statistics of tensors captured by an independent instrumented fx.Interpreter run on the captured graph and inputs; icontract postcondition on Metrics.from_tensor; analyse_module checked the same way",
            "4/C18", "Held on generated programs (one open known finding: rounding-level gradient differences at tensors with >= 3 consumers).", "deterministic re-execution of the captured GraphModule"),
    "C19": ("differential monitor on tracked graphs: pruning helpers vs an independent networkx model of the documented removal sets (three-valued), lint + dangling-edge scan, reachability of consumers from producers, before/after snapshot of the input graph",
            "4/C19", "Held on tracked graphs of generated programs x 3 helpers x 3 tolerances x random target sets.", "node.meta written by track_scales as established by C18"),
    "C20": ("differential monitor: eager vs torch.compile (aot_eager quick, inductor thorough) on outputs and gradients with Dynamo capture counters as a vacuity guard; fx.symbolic_trace forward values; the library's leaf-wrapping tracer for gradients",
            "4/C20", "Held on the 16 functions and random 2-6 step compositions x 3 dtypes; Inductor only in the thorough tier.", "eager execution is the reference; PyTorch's bfloat16 conv1d backward excluded (PyTorch itself is not reproducible there)"),
})

PENDING = {}


def main():
    checks = []
    for pid, (tech, ref, text, note) in sorted(CHECKS.items()):
        checks.append({
            "property_id": pid,
            "quick_cmd": f"./check {pid} --tier quick",
            "thorough_cmd": f"./check {pid} --tier thorough",
            "evidence_file": f"/verif/evidence/{pid}.json",
            "replay_cmd_template": f"./check {pid} --replay {{path}}",
            "engine": "vmon",
            "level_claimed": {"category": "exploration", "text": text, "design_ref": f"DESIGN.md section {ref}"},
            "level_note": note,
            "technique": "runtime monitoring: " + tech,
        })
    props = [json.loads(l)["id"] for l in open(os.path.join(HERE, "properties.jsonl"))]
    na = []
    for pid in props:
        if pid not in CHECKS:
            na.append({"property_id": pid, "reason": PENDING.get(pid, "monitor not built yet in this session (planned, see DESIGN.md section 4); not a limit of the technique")})
    m = {
        "version": 1,
        "setup_cmd": "/venv/bin/python -m pip install -q --no-index --find-links /opt/veriftools/wheels --target /verif/.deps icontract deal",
        "hooks": {
            "guard": "UNIT_SCALING_VERIF",
            "enable": "no source hooks are needed: every observation point is reached from the harness (module-global rebinding, icontract wrappers installed at run time, sys.monitoring, public callbacks); the package is an editable install so checks import /repo's working tree directly",
            "baseline_off_cmd": "cd /repo && /venv/bin/python -m pytest -ra -q -p no:cacheprovider --timeout=900 --continue-on-collection-errors",
            "source_commits": [],
            "add_only": True,
        },
        "engines": [{"name": "vmon", "path": "/verif/vmon", "serves_properties": sorted(CHECKS),
                     "kind_free_text": "runtime monitoring harness: seeded workload generators, 16 worker subprocesses, oracles/contracts/sanitizers, sys.monitoring reach probe, three-valued verdicts"}],
        "checks": checks,
        "not_applicable": na,
        "notes": "All verdicts are 'held on what was observed'. Exit 2 + INCONCLUSIVE when a deciding monitor never fired. Known findings: /verif/known_findings.json. Mutation self-test: selftest/run.py.",
    }
    with open(os.path.join(HERE, "MANIFEST.json"), "w") as f:
        json.dump(m, f, indent=1)
    r = subprocess.run(["python3-vt", "-c", "import json,jsonschema;jsonschema.validate(json.load(open('%s/MANIFEST.json')),json.load(open('/root/.vp/MANIFEST.schema.json')));print('MANIFEST valid')" % HERE],
                       capture_output=True, text=True)
    print(r.stdout, r.stderr[-500:])


if __name__ == "__main__":
    main()
