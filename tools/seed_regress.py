#!/venv/bin/python
"""Regression over every stored seeded change: apply seeded/<id>/patch.diff to a scratch copy of /repo's working tree, run the
owning check (quick tier) against it and demand a violation key that the unchanged tree does not produce.
usage: tools/seed_regress.py [--only substr] [--par 3] [--jobs 5]   -> prints one line per seed, exits 1 if any seed is missed."""
import argparse, concurrent.futures as cf, json, os, shutil, subprocess, sys, tempfile

VERIF = os.path.dirname(os.path.dirname(os.path.abspath(__file__)))
sys.path.insert(0, os.path.join(VERIF, "selftest"))
import run as st  # noqa: E402


def one(sd, jobs):
    d = os.path.join(VERIF, "seeded", sd)
    prop = sd.split("-")[-1]
    tmp = tempfile.mkdtemp(prefix="vmon-regr-", dir=os.environ.get("VERIF_SCRATCH", "/var/tmp"))
    try:
        shutil.copytree("/repo/unit_scaling", os.path.join(tmp, "unit_scaling"), ignore=shutil.ignore_patterns("__pycache__"))
        r = subprocess.run(["patch", "-p1", "-d", tmp, "-i", os.path.join(d, "patch.diff")], capture_output=True, text=True)
        if r.returncode != 0:
            return sd, "PATCH-FAILS", []
        props = [prop]
        meta = json.load(open(os.path.join(d, "meta.json")))
        if meta.get("obsolete"):
            return sd, "caught", [("n/a", ["obsolete: " + meta["obsolete"][:80]])]
        # a seed may be owned by another check as well (recorded when it was stored)
        for k, v in (meta.get("confirmed_by_framework_author", {}).get("checks", {}) or {}).items():
            if v.get("fired") and k not in props:
                props.append(k)
        for k, v in (meta.get("re_evaluation_after_strengthening") or {}).items():
            if v.get("fired") and k not in props:
                props.append(k)
        fired = []
        for p in props:  # the owning check first, then every other check that fired when the seed was stored
            rr = subprocess.run([os.path.join(VERIF, "check"), p, "--tier", "quick", "--repo", tmp, "--no-evidence", "--jobs", str(jobs)],
                                capture_output=True, text=True, cwd=VERIF, timeout=3 * 3600)
            new = sorted(st._keys(rr.stdout) - st.baseline(p, "quick", jobs))
            if rr.returncode == 1 and new:
                fired.append((p, new[:2]))
                break
        return sd, ("caught" if fired else "MISSED"), fired
    finally:
        shutil.rmtree(tmp, ignore_errors=True)


def main():
    ap = argparse.ArgumentParser()
    ap.add_argument("--only", default="")
    ap.add_argument("--par", type=int, default=3)
    ap.add_argument("--jobs", type=int, default=5)
    a = ap.parse_args()
    seeds = sorted(s for s in os.listdir(os.path.join(VERIF, "seeded")) if os.path.isdir(os.path.join(VERIF, "seeded", s)) and a.only in s)
    bad = 0
    with cf.ThreadPoolExecutor(a.par) as ex:
        for sd, verdict, fired in ex.map(lambda s: one(s, a.jobs), seeds):
            print(f"{verdict:12s} {sd} {str(fired)[:160]}", flush=True)
            bad += verdict != "caught"
    print(f"{len(seeds) - bad}/{len(seeds)} stored seeds caught by their owning check")
    return 1 if bad else 0


if __name__ == "__main__":
    sys.exit(main())
