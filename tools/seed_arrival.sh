#!/usr/bin/env bash
# usage: tools/seed_arrival.sh <framework-commit> <worktree-prefix> id [id ...]
# Runs the OWNING check of each seed as the framework stood at <framework-commit> (a scratch worktree of /verif under /var/tmp)
# against a scratch copy of /repo with the seed applied: "was it caught on arrival?"   Output: one line per seed.
cd "$(dirname "$0")/.."
commit=$1; pre=$2; shift 2
W=/var/tmp/verif_arrival
rm -rf $W; git worktree add -f $W $commit -q || exit 1
ln -s /verif/.deps $W/.deps
for id in "$@"; do
  D=$(mktemp -d /var/tmp/arr_$id.XXXX); cp -r /repo/unit_scaling $D/
  if patch -p1 -d $D -i ${pre}_$id/SEED/patch.diff >/dev/null 2>&1; then
    out=$(cd $W && ./check $id --tier quick --repo $D --no-evidence --jobs 12 2>&1)
    base=$(cd $W && ./check $id --tier quick --repo /repo --no-evidence --jobs 12 2>&1 | grep -E "^  key=" | sed 's/ witnesses.*//' | sort -u)
    new=$(echo "$out" | grep -E "^  key=" | sed 's/ witnesses.*//' | sort -u | comm -23 - <(echo "$base") | head -3 | tr '\n' ' ')
    if [ -n "$new" ]; then echo "$id ARRIVAL:FIRED $new"; else echo "$id ARRIVAL:silent"; fi
  else echo "$id patch does not apply"; fi
  rm -rf $D
done
git worktree remove --force $W
