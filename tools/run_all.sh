#!/usr/bin/env bash
# usage: tools/run_all.sh [quick|thorough] [seed]  - runs every registered check once, prints one line per check
cd "$(dirname "$0")/.."
tier=${1:-quick}; seed=${2:-0}
rc_all=0
for p in $(/venv/bin/python -c "import json;print(' '.join(c['property_id'] for c in json.load(open('MANIFEST.json'))['checks']))"); do
  t0=$(date +%s)
  out=$(VERIF_SEED=$seed ./check $p --tier $tier 2>&1); rc=$?
  t1=$(date +%s)
  echo "$p rc=$rc $((t1-t0))s $(echo "$out" | grep -E '^VIOLATION|^INCONCLUSIVE|HARNESS-ERROR|WORKER PROBLEM' | head -3 | tr '\n' ' ')"
  [ $rc -ne 0 ] && rc_all=1
done
exit $rc_all
