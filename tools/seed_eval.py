#!/venv/bin/python
"""Confirm and evaluate an independently seeded change.

usage: tools/seed_eval.py <dir with patch.diff + demo.py> --props C01,C02 [--tier quick] [--tests] [--keep <id>]

Steps (all on a scratch copy of /repo's working tree under /var/tmp, never in /repo itself - a background thorough run may be
reading /repo):
  1. copy /repo (unit_scaling incl. tests), apply patch.diff;
  2. demo.py must FAIL on the patched copy and PASS on /repo;
  3. optionally (--tests) the repository's own test suite must pass on the patched copy;
  4. run the named checks with --repo <copy> --no-evidence and report which fire (new keys only, vs the unmutated baseline).
With --keep <id> the patch, demo and a meta.json are stored under /verif/seeded/<id>/.
"""

from __future__ import annotations

import argparse
import json
import os
import shutil
import subprocess
import sys
import tempfile

VERIF = os.path.dirname(os.path.dirname(os.path.abspath(__file__)))
sys.path.insert(0, os.path.join(VERIF, "selftest"))
import run as st  # noqa: E402


def main():
    ap = argparse.ArgumentParser()
    ap.add_argument("dir")
    ap.add_argument("--props", required=True)
    ap.add_argument("--tier", default="quick")
    ap.add_argument("--tests", action="store_true")
    ap.add_argument("--keep", default="")
    ap.add_argument("--jobs", type=int, default=8)
    a = ap.parse_args()
    patch = os.path.join(a.dir, "patch.diff")
    demo = os.path.join(a.dir, "demo.py")
    d = tempfile.mkdtemp(prefix="vmon-seed-", dir=os.environ.get("VERIF_SCRATCH", "/var/tmp"))
    report = {"dir": a.dir}
    try:
        shutil.copytree("/repo/unit_scaling", os.path.join(d, "unit_scaling"), ignore=shutil.ignore_patterns("__pycache__"))
        for f in ("pyproject.toml", "setup.cfg"):
            if os.path.exists(os.path.join("/repo", f)):
                shutil.copy(os.path.join("/repo", f), d)
        r = subprocess.run(["patch", "-p1", "-d", d, "-i", os.path.abspath(patch)], capture_output=True, text=True)
        report["patch_applies"] = r.returncode == 0
        if r.returncode != 0:
            print(r.stdout, r.stderr)
            print(json.dumps(report, indent=1))
            return 1
        env = dict(os.environ, OMP_NUM_THREADS="2")
        r1 = subprocess.run(["/venv/bin/python", os.path.abspath(demo)], env=dict(env, PYTHONPATH=d), capture_output=True, text=True, timeout=1800, cwd=d)
        r0 = subprocess.run(["/venv/bin/python", os.path.abspath(demo)], env=dict(env, PYTHONPATH="/repo"), capture_output=True, text=True, timeout=1800, cwd="/var/tmp")
        report["demo_fails_with_change"] = r1.returncode != 0
        report["demo_passes_without_change"] = r0.returncode == 0
        report["demo_tail_with_change"] = (r1.stdout + r1.stderr)[-400:]
        if r0.returncode != 0:
            report["demo_tail_without_change"] = (r0.stdout + r0.stderr)[-400:]
        if a.tests:
            rt = subprocess.run(["/venv/bin/python", "-m", "pytest", "-q", "-p", "no:cacheprovider", "-n", "4", "--timeout=900", "unit_scaling/tests",
                                 "--deselect", "unit_scaling/tests/test_analysis.py"], env=dict(env, PYTHONPATH=d), capture_output=True, text=True, cwd=d, timeout=3600)
            report["tests_tail"] = rt.stdout.strip().splitlines()[-1] if rt.stdout.strip() else rt.stderr[-200:]
            report["tests_pass"] = rt.returncode == 0
        results = {}
        for prop in a.props.split(","):
            r = subprocess.run([os.path.join(VERIF, "check"), prop, "--tier", a.tier, "--repo", d, "--no-evidence", "--jobs", str(a.jobs)],
                               capture_output=True, text=True, cwd=VERIF, timeout=4 * 3600)
            new = sorted(st._keys(r.stdout) - st.baseline(prop, a.tier, a.jobs))
            results[prop] = {"rc": r.returncode, "fired": r.returncode == 1 and bool(new), "new_keys": [k[:200] for k in new[:6]]}
        report["checks"] = results
    finally:
        shutil.rmtree(d, ignore_errors=True)
    print(json.dumps(report, indent=1))
    if a.keep:
        out = os.path.join(VERIF, "seeded", a.keep)
        os.makedirs(out, exist_ok=True)
        shutil.copy(patch, os.path.join(out, "patch.diff"))
        shutil.copy(demo, os.path.join(out, "demo.py"))
        meta = {}
        mp = os.path.join(a.dir, "meta.json")
        if os.path.exists(mp):
            try:
                meta = json.load(open(mp))
            except Exception:
                meta = {"raw": open(mp).read()[:2000]}
        meta["confirmed_by_framework_author"] = {k: v for k, v in report.items() if k != "dir"}
        with open(os.path.join(out, "meta.json"), "w") as f:
            json.dump(meta, f, indent=1)
    return 0


if __name__ == "__main__":
    sys.exit(main())
